"""Contracts for the cross-language JSON metadata codec (property C11): every encode_* / decode_* pair of MementoCodec.

One *wire predicate* per document kind, written once from the format (field names pinned from the current code -- the
repository has no separate written specification of the wire format): WIRE_X(s, v) says that document s carries value v.
Every encoder is proved to produce a document with  WIRE_X(result, obj)  and exactly the pinned key set; every decoder
is proved to produce a value with  WIRE_X(state, result).  Both directions are checked against the SAME predicate text, so a
field renamed, dropped or swapped on one side fails an obligation.  Nested argument documents are related by the
uninterpreted relation argwire(s, v) ("argument document s carries value v"), whose one-level unfolding ARG1 is what
encode_arg / decode_arg are proved against (recursive calls use their own contract; termination is not proved).
Round trip  decode(encode(x)) ~ x  follows from the two directions because each WIRE_X determines every field of v from s
(structural induction over the fixed document shapes; stated lemma, DESIGN section 6, C11).
"""
import z3

from pyvc.ty import *  # noqa
from pyvc.engine import PyRaise, Unsupported

DOC = TDict(TStr, TObj())
RESULT_TYPES = ["exception", "null", "boolean", "string", "binary", "number", "date", "timestamp", "list_result", "dictionary",
                "array_boolean", "array_int8", "array_int16", "array_int32", "array_int64", "array_float32", "array_float64",
                "index", "series", "data_frame", "partition", "memento_function"]


def load(R):
    R.enum("ResultType", RESULT_TYPES)
    for a, t in dict(resource_type=TObj(), url=TObj(), version=TObj(), fn_reference=TObj("nn:FunctionReference"), arg_hash=TObj(), qualified_name=TObj(),
                     partial_args=TObj(), partial_kwargs=TObj(), parameter_names=TObj(), args=TObj(), kwargs=TObj(), context_args=TObj(),
                     correlation_id=TObj(), retry_on_remote_call=TObj(), prevent_further_calls=TObj(), key=TStr,
                     fn_reference_with_args=TObj("nn:FunctionReferenceWithArguments"), invocations=TObj(), resources=TObj(), runtime=TObj(), result_type=TObj("enum:ResultType"),
                     time=TObj(), invocation_metadata=TObj("nn:InvocationMetadata"), function_dependencies=TObj(), runner=TObj(), content_key=TObj(), memento_fn=TObj()).items():
        R.attr(a, t)
    for n, (a, r) in dict(argwire=([TObj(), TObj()], TBool), dtwire=([TObj(), TObj()], TBool), total_seconds_of=([TObj()], TObj()), timedelta_of=([TObj()], TObj()),
                          b64=([TObj()], TObj()), unb64=([TObj()], TObj()), nparray=([TObj(), TObj()], TObj()), aslist=([TObj()], TObj()), astuple=([TObj()], TObj()),
                          ref_named=([TObj(), TObj(), TObj(), TObj()], TObj()), isoformat_of=([TObj()], TStr), parsed_dt=([TStr], TObj()), date_of=([TObj()], TObj()),
                          vkey_key=([TObj()], TStr), vkey_version=([TObj()], TStr)).items():
        R.uf(n, a, r)
    ufs = {k: v[0] for k, v in R.ufs.items()}
    from .common import sequence_passthrough
    sequence_passthrough(R, ufs)
    for cls, mod in (("ResourceHandle", "resource"), ("InvocationMetadata", "metadata"), ("Memento", "metadata"), ("FunctionReferenceWithArgHash", "reference")):
        R.opaque_class(cls, mod)
    R.record("VersionedDataSourceKey", key=TStr, version=TStr)

    C = "serialization:MementoCodec."

    # a malformed document (missing key, null where a list / mapping is expected, unknown tag) makes a decoder raise one of these; nothing is
    # claimed about which -- the claim is about what a decoder returns when it returns
    MALFORMED = {"KeyError": [], "TypeError": [], "AttributeError": [], "IndexError": [], "ValueError+": [], "Exception+": []}

    def both(name, wire, keys, obj_ty, extra_enc=(), extra_dec_req=(), dec_raises=None, enc_raises=None, enc_req=()):
        """encoder: WIRE(result, obj) + exactly the pinned keys; decoder: WIRE(state, result)."""
        R.contract(C + "encode_" + name, prop="C11", types={"obj": obj_ty}, returns=DOC, requires=list(enc_req),
                   ensures=["%s(result, obj)" % wire, "len(result) == %d" % len(keys)] + list(extra_enc), raises=dict(enc_raises or {}),
                   labels={"dict_literals_dynamic": True})
        R.contract(C + "decode_" + name, prop="C11", types={"state": DOC}, returns=TObj(),
                   ensures=["result is not None", "%s(state, result)" % wire], raises=dict(MALFORMED, **(dec_raises or {})))

    # ---------------------------------------------------------------- leaves
    R.spec("ARGLIST", ["sl", "vl"], "(sl is None) == (vl is None) and implies(sl is not None, len(sl) == len(vl) and forall(int, lambda i: implies(0 <= i and i < len(sl), argwire(sl[i], vl[i]))))")
    R.spec("ARGMAP", ["sd", "vd"], "(sd is None) == (vd is None) and implies(sd is not None, forall(str, lambda k: (k in sd) == (k in vd) and implies(k in sd, argwire(sd[k], vd[k]))))")

    R.spec("WIRE_RES", ["s", "v"], "s['resourceType'] == v.resource_type and s['url'] == v.url and s['version'] == v.version")
    both("resource_handle", "WIRE_RES", ["resourceType", "url", "version"], TObj("nn:ResourceHandle"))

    R.spec("WIRE_RC", ["s", "v"], "s['correlationId'] == v.correlation_id and s['retryOnRemoteCall'] == v.retry_on_remote_call and s['preventFurtherCalls'] == v.prevent_further_calls "
                                  "and argwire(s['contextArgs'], v.context_args)")

    def keyed_ctor(cls_name, fields):
        """Constructor of a repository class that stores its keyword arguments under the same names (class facts: plain initialiser or a
        property bag): the new object's attributes are the arguments."""
        def ctor(ex, args, kwargs):
            o = ex.fresh_obj(cls_name)
            ex.assume(ex.class_pred(cls_name)(o))
            vals = dict(zip(fields, args))
            vals.update(kwargs)
            for f in fields:
                ty = R.attrs[f][0]
                v = vals.get(f, VNone)
                ex.assume(z3.Function("attr_" + f, ObjSort, ty.sort())(o) == ex.to_term(v, ty))
            return VObj(o, cls_name)
        return ctor
    R.constructors["RecursiveContext"] = keyed_ctor("RecursiveContext", ["correlation_id", "retry_on_remote_call", "prevent_further_calls", "context_args"])
    R.constructors["FunctionReferenceWithArguments"] = keyed_ctor("FunctionReferenceWithArguments", ["fn_reference", "args", "kwargs", "context_args"])
    R.assume("RecursiveContext(...) and FunctionReferenceWithArguments(...) keep the (normalised) values they are given under the same attribute names (normalisation is idempotent on decoded values: C04)")

    both("recursive_context", "WIRE_RC", ["correlationId", "retryOnRemoteCall", "preventFurtherCalls", "contextArgs"], TObj("nn:RecursiveContext"),
         enc_raises={"ValueError": []}, dec_raises={"ValueError+": [], "KeyError": []})

    # ---- function references
    R.spec("ARGLIST0", ["sl", "vl"], "implies(sl is None, vl is None or len(vl) == 0) and implies(sl is not None, vl is not None and len(sl) == len(vl) and forall(int, lambda i: implies(0 <= i and i < len(sl), argwire(sl[i], vl[i]))))")
    R.spec("ARGMAP0", ["sd", "vd"], "implies(sd is None, vd is None or len(vd) == 0) and implies(sd is not None, vd is not None and forall(str, lambda k: (k in sd) == (k in vd) and implies(k in sd, argwire(sd[k], vd[k]))))")
    R.spec("WF_ARG", ["s"], "s is not None")
    R.spec("WF_ARGLIST", ["sl"], "implies(sl is not None, forall(int, lambda i: implies(0 <= i and i < len(sl), WF_ARG(sl[i]))))")
    R.spec("WF_ARGMAP", ["sd"], "implies(sd is not None, forall(str, lambda k: implies(k in sd, WF_ARG(sd[k]))))")
    R.spec("WIRE_FNREF", ["s", "v"], "s['qualifiedName'] == v.qualified_name and ARGLIST0(s['partialArgs'], v.partial_args) and ARGMAP0(s['partialKwargs'], v.partial_kwargs) "
                                      "and s['parameterNames'] == v.parameter_names")
    FNREF_KEYS = ["qualifiedName", "partialArgs", "partialKwargs", "parameterNames"]
    R.spec("WF_FNREF", ["s"], "s is not None and " + " and ".join("%r in s" % k for k in FNREF_KEYS) + " and WF_ARGLIST(s['partialArgs']) and WF_ARGMAP(s['partialKwargs'])")
    R.contract("reference:FunctionReference.from_qualified_name", assumed=True,
               types={"qualified_name": TObj(), "partial_args": TObj(), "partial_kwargs": TObj(), "parameter_names": TObj(), "external": TBool}, returns=TObj("nn:FunctionReference"),
               ensures=["result.qualified_name == qualified_name", "result.parameter_names == parameter_names", "result.memento_fn is not None",
                        "implies(partial_args is None, len(result.partial_args) == 0)", "implies(partial_args is not None, same(result.partial_args, partial_args))",
                        "implies(partial_kwargs is None, len(result.partial_kwargs) == 0)", "implies(partial_kwargs is not None, same(result.partial_kwargs, partial_kwargs))"],
               notes="assumed here: the reference carries the name and (normalised = unchanged, for decoded values) partial arguments it is given; never raising and naming are C12's subject")
    both("fn_reference", "WIRE_FNREF", FNREF_KEYS, TObj("nn:FunctionReference"),
         enc_raises={"ValueError": []}, dec_raises={"ValueError+": [], "KeyError": []})

    R.contracts[C + "decode_fn_reference"].labels["touch_result"] = True
    # C12 ("references ... to versions that no longer exist are reported as external references", "reading stored metadata never raises"): a decoded reference always has a
    # function object behind it (proved for from_qualified_name under C12), so decoding a function-valued argument never gives up with FunctionNotFoundError
    R.contracts[C + "decode_fn_reference"].ensures.append("result.memento_fn is not None")
    R.spec("WIRE_FWH", ["s", "v"], "WIRE_FNREF(s['fnReference'], v.fn_reference) and s['argHash'] == v.arg_hash")
    both("fn_reference_with_arg_hash", "WIRE_FWH", ["fnReference", "argHash"], TObj("nn:FunctionReferenceWithArgHash"),
         enc_raises={"ValueError": []}, dec_raises={"ValueError+": [], "KeyError": []})

    R.spec("WIRE_FWA", ["s", "v"], "WIRE_FNREF(s['fnReference'], v.fn_reference) and ARGLIST(s['args'], v.args) and ARGMAP(s['kwargs'], v.kwargs) and ARGMAP(s['contextArgs'], v.context_args)")
    FWA_KEYS = ["fnReference", "args", "kwargs", "contextArgs"]
    R.spec("WF_FWA", ["s"], "s is not None and " + " and ".join("%r in s" % k for k in FWA_KEYS) + " and WF_FNREF(s['fnReference']) and WF_ARGLIST(s['args']) and WF_ARGMAP(s['kwargs']) and WF_ARGMAP(s['contextArgs'])")
    both("fn_reference_with_args", "WIRE_FWA", FWA_KEYS, TObj("nn:FunctionReferenceWithArguments"),
         enc_raises={"ValueError": []}, dec_raises={"ValueError+": [], "KeyError": []})

    # ---- argument documents: the typed {type, value} encoding, one level (nested documents are related by argwire)
    NPTYPES = ["boolean", "int8", "int16", "int32", "int64", "float32", "float64"]
    NPNAME = {t: ("bool" if t == "boolean" else t) for t in NPTYPES}
    for n_, (a_, r_) in dict(npdtype_tag=([TObj()], TStr), b64wire=([TObj(), TObj()], TBool), refof=([TObj(), TObj()], TBool), fn_reference_of=([TObj()], TObj()),
                             py_eq=([TObj(), TObj()], TBool)).items():
        R.uf(n_, a_, r_)
    R.spec("IS_NUM", ["v"], "(isinstance(v, int) or isinstance(v, float)) and not isinstance(v, bool)")
    R.spec("ARRAY_TAG", ["t"], " or ".join("t == 'array_%s'" % x for x in NPTYPES))
    R.spec("NPWIRE", ["sd", "v", "tag", "strict"], "implies(strict, sd is not None) and implies(sd is not None, len(sd) == len(v) and forall(int, lambda i: implies(0 <= i and i < len(sd), same(sd[i], v[i])))) "
                                                   "and npdtype_tag(v.dtype) == tag")
    # strict: the value has the Python type the tag names (what an encoder may emit); a decoder hands back primitive values as they are
    R.spec("ARG1", ["s", "v", "strict"],
           "(s['type'] == 'null' and v is None) "
           "or (s['type'] == 'boolean' and implies(strict, isinstance(v, bool)) and same(s['value'], v)) "
           "or (s['type'] == 'string' and implies(strict, isinstance(v, str)) and same(s['value'], v)) "
           "or (s['type'] == 'binary' and isinstance(v, bytes) and b64wire(s['value'], v)) "
           "or (s['type'] == 'number' and implies(strict, IS_NUM(v)) and same(s['value'], v)) "
           "or (ARRAY_TAG(s['type']) and isinstance(v, np.ndarray) and NPWIRE(s['value'], v, s['type'], strict)) "
           "or (s['type'] == 'twosigma.memento.FunctionReference' and isinstance(v, MementoFunctionType) and exists(obj, lambda r: fnrefwire(s['value'], r) and refof(r, v))) "
           "or (s['type'] == 'list_result' and (isinstance(v, list) or isinstance(v, tuple)) and ARGLIST(s['value'], v) and s['value'] is not None) "
           "or (s['type'] == 'dictionary' and isinstance(v, dict) and ARGMAP(s['value'], v) and s['value'] is not None) "
           "or (s['type'] == 'timestamp' and implies(strict, isinstance(v, datetime.datetime)) and dtwire(s['value'], v)) "
           "or (s['type'] == 'date' and implies(strict, isinstance(v, datetime.date) and not isinstance(v, datetime.datetime)) and dtwire(s['value'], v))")
    FAMILIES = ["bytes", "np.ndarray", "Callable", "list", "tuple", "dict", "datetime.date"]
    R.spec("CLASS_FACTS", ["v"],
           "implies(isinstance(v, datetime.datetime), isinstance(v, datetime.date)) and implies(isinstance(v, MementoFunctionType), isinstance(v, Callable)) and "
           + " and ".join("not (isinstance(v, %s) and isinstance(v, %s))" % (a_, b_) for i_, a_ in enumerate(FAMILIES) for b_ in FAMILIES[i_ + 1:])
           + " and implies(v is None or isinstance(v, bool) or isinstance(v, str) or isinstance(v, int) or isinstance(v, float), "
           + " and ".join("not isinstance(v, %s)" % a_ for a_ in FAMILIES) + ")")
    R.assume("class facts (CLASS_FACTS): bool is an int, datetime.datetime is a datetime.date, a memento function is callable; bytes / ndarray / callables / list / tuple / dict / dates and the primitive "
             "values are otherwise pairwise disjoint (subclasses of several of them are outside the supported argument domain)")
    R.external("base64.b64encode", returns=TObj(), ensures=["b64wire(result, arg0)"])
    R.external("base64.b64decode", returns=TObj("nn:bytes"), raises={"Exception+": []}, ensures=["b64wire(arg0, result)", "isinstance(result, bytes)"])
    R.attr("ndim", TInt)
    R.attr("dtype", TObj())
    R.touch_attrs.add("dtype")

    def fn_reference_hook(ex, recv, args, kwargs):
        r = R.ufs["fn_reference_of"][0](recv.t)
        ex.assume(z3.And(r != PyNone, R.ufs["refof"][0](r, recv.t)))
        ex.touch(TObj(), r)
        return VObj(r, "FunctionReference")
    R.obj_method_hooks["fn_reference"] = fn_reference_hook

    def np_array(ex, args, kwargs):
        dt = kwargs.get("dtype")
        tag = None
        for x in NPTYPES:
            if isinstance(dt, VBuiltin) and dt.name.split(".")[-1] == NPNAME[x]:
                tag = "array_" + x
        if tag is None:
            raise Unsupported("np.array with dtype %r" % (dt,))
        if ex.choose([z3.BoolVal(True), z3.BoolVal(True)]) == 1:
            raise PyRaise(VExc("Exception", [], exact=False))     # values that do not fit the dtype, None instead of a list, ...
        r = ex.fresh_obj("ndarray")
        ln, item = ex.seq_ufs()
        src = args[0]
        if isinstance(src, VObj) and not ex.branch(src.t != PyNone):
            # np.array(None, dtype=...) raises for integer dtypes and yields a 0-d NaN for floats: an array about whose items nothing is said
            ex.assume(z3.And(ex.class_pred("numpy.ndarray")(r), R.ufs["npdtype_tag"][0](z3.Function("attr_dtype", ObjSort, ObjSort)(r)) == z3.StringVal(tag)))
            return VObj(r, "ndarray")
        srcl = ex.cont(ex.obj_as_list(src)) if isinstance(src, VObj) else ex.cont(src)
        arr, n_ = srcl.arr, srcl.n
        ex.assume(z3.And(ex.class_pred("numpy.ndarray")(r), ln(r) == n_, R.ufs["npdtype_tag"][0](z3.Function("attr_dtype", ObjSort, ObjSort)(r)) == z3.StringVal(tag)))
        ex.add_universal([TInt], lambda i: z3.Implies(z3.And(0 <= i, i < n_), item(r, i) == arr[i]), "np.array-items")
        return VObj(r, "ndarray")
    R.constructors["numpy.array"] = np_array
    R.assume("np.array(values, dtype=T) is an array of dtype T with the given items, or raises; obj.dtype == np.T identifies the dtype tag (dtype objects compare equal to the numpy scalar types)")

    def arg_path_init(ex):
        tagf, eq = R.ufs["npdtype_tag"][0], R.ufs["py_eq"][0]
        for x in NPTYPES:
            c_ = ex.box(VBuiltin("numpy." + NPNAME[x]))
            ex.add_universal([TObj()], lambda d, c_=c_, x=x: z3.Implies(eq(d, c_), tagf(d) == z3.StringVal("array_" + x)), "dtype-tag-" + x)
        memfn = z3.Function("attr_memento_fn", ObjSort, ObjSort)
        ex.add_universal([TObj()], lambda r: z3.Implies(memfn(r) != PyNone, z3.And(R.ufs["refof"][0](r, memfn(r)), ex.class_pred("MementoFunctionType")(memfn(r)))),
                         "a-reference-refers-to-its-function")
    R.path_init.append(arg_path_init)
    R.contract(C + "encode_arg", prop="C11", types={"obj": TObj()}, returns=DOC,
               ensures=["'type' in result", "('value' in result) == (obj is not None)", "len(result) == (1 if obj is None else 2)", "ARG1(result, obj, True)", "[effect] argwire(result, obj)",
                        # from the property ("the emitted document is plain JSON ... other language implementations read"): a number leaf is a JSON number,
                        # i.e. finite -- NaN / Infinity have no JSON representation (json.dumps writes the bare tokens NaN / Infinity, which strict parsers reject)
                        "implies(isinstance(obj, float), json_finite(obj))"],
               raises={"ValueError": []}, labels={"dict_literals_dynamic": True, "entry_axioms": ["CLASS_FACTS(obj)"]})
    R.uf("json_finite", [TObj()], TBool)
    R.contract(C + "decode_arg", prop="C11", types={"state": TObj()}, returns=TObj(),
               ensures=["ARG1(state, result, False)", "[effect] argwire(state, result)"], raises=dict({"FunctionNotFoundError": ["False"]}, **dict(MALFORMED, **{"Exception+": []})))

    # ---- definitional relations for nested documents in lists (closure rules, asserted by the contracts as ghost effects)
    for rel in ("fwawire", "reswire", "fnrefwire", "rtwire"):
        R.uf(rel, [TObj(), TObj()], TBool)
    for name_, rel in (("fn_reference_with_args", "fwawire"), ("resource_handle", "reswire"), ("fn_reference", "fnrefwire")):
        R.contracts[C + "encode_" + name_].ensures.append("[effect] %s(result, obj)" % rel)
        R.contracts[C + "decode_" + name_].ensures.append("[effect] %s(state, result)" % rel)
    R.spec("LISTOF_FWA", ["sl", "vl"], "(sl is None) == (vl is None) and implies(sl is not None, len(sl) == len(vl) and forall(int, lambda i: implies(0 <= i and i < len(sl), fwawire(sl[i], vl[i]))))")
    R.spec("LISTOF_RES", ["sl", "vl"], "(sl is None) == (vl is None) and implies(sl is not None, len(sl) == len(vl) and forall(int, lambda i: implies(0 <= i and i < len(sl), reswire(sl[i], vl[i]))))")
    R.spec("WF_LIST_FWA", ["sl"], "implies(sl is not None, forall(int, lambda i: implies(0 <= i and i < len(sl), WF_FWA(sl[i]))))")
    R.spec("WF_LIST_RES", ["sl"], "implies(sl is not None, forall(int, lambda i: implies(0 <= i and i < len(sl), sl[i] is not None and 'resourceType' in sl[i] and 'url' in sl[i] and 'version' in sl[i])))")

    # ---- invocation metadata
    R.obj_method_hooks["total_seconds"] = lambda ex, recv, args, kwargs: _rel_result(ex, "rtwire", recv, first=False)

    def _rel_result(ex, rel, other, first):
        r = ex.fresh(rel + "_r", ObjSort)
        ex.assume(ufs_all()[rel](r, other.t) if not first else ufs_all()[rel](other.t, r))
        return VObj(r)

    def ufs_all():
        return {k: v[0] for k, v in R.ufs.items()}

    def timedelta(ex, args, kwargs):
        sec = kwargs.get("seconds") if "seconds" in kwargs else args[0]
        r = ex.fresh_obj("timedelta")
        ex.assume(ufs_all()["rtwire"](ex.box(sec), r))
        return VObj(r, "timedelta")
    R.constructors["datetime.timedelta"] = timedelta
    R.spec("WIRE_IMD", ["s", "v"], "WIRE_FWA(s['fnReferenceWithArgs'], v.fn_reference_with_args) and LISTOF_FWA(s['invocations'], v.invocations) and LISTOF_RES(s['resources'], v.resources) "
                                   "and rtwire(s['runtimeSeconds'], v.runtime) and s['resultType'] == v.result_type.name")
    IMD_KEYS = ["fnReferenceWithArgs", "invocations", "resources", "runtimeSeconds", "resultType"]
    R.spec("WF_IMD", ["s"], "s is not None and " + " and ".join("%r in s" % k for k in IMD_KEYS) + " and WF_FWA(s['fnReferenceWithArgs']) and WF_LIST_FWA(s['invocations']) and WF_LIST_RES(s['resources']) "
                            "and isinstance(s['resultType'], str)")
    both("invocation_metadata", "WIRE_IMD", IMD_KEYS, TObj("nn:InvocationMetadata"),
         enc_req=["obj.runtime is not None", "obj.result_type is not None"], enc_raises={"ValueError": []}, dec_raises={"ValueError+": [], "KeyError": []})

    # ---- versioned keys: "<key>#<version>" split at the LAST '#'
    VK = R.records["VersionedDataSourceKey"]
    R.contract(C + "encode_versioned_data_source_key", prop="C11", types={"content_key": TOpt(VK)}, returns=TOpt(TStr),
               ensures=["(result is None) == (content_key is None)", "implies(content_key is not None, result == content_key.key + '#' + content_key.version)"])
    R.contract(C + "decode_versioned_data_source_key", prop="C11", types={"state": TOpt(TStr)}, returns=TOpt(VK), ghost_params={"k": TStr, "ver": TStr},
               requires=["implies(state is not None, state == ghost('k') + '#' + ghost('ver') and '#' not in ghost('ver'))"],
               ensures=["(result is None) == (state is None)", "implies(state is not None, result.key == ghost('k') and result.version == ghost('ver'))"])

    # ---- dates and datetimes
    R.obj_method_hooks["isoformat"] = lambda ex, recv, args, kwargs: VStr(ufs_all()["isoformat_of"](recv.t))
    R.obj_method_hooks["date"] = lambda ex, recv, args, kwargs: VObj(ufs_all()["date_of"](recv.t))
    R.external("dateutil.parser.parse", returns=TObj("nn:datetime"), raises={"ValueError+": []}, ensures=["same(result, parsed_dt(arg0))"])
    R.contract(C + "encode_datetime", prop="C11", types={"obj": TObj("nn:datetime")}, returns=TStr,
               requires=["not ('+00:00' in isoformat_of(obj)[isoformat_of(obj).find('+00:00') + 1:])"],
               ensures=["result == (isoformat_of(obj)[:isoformat_of(obj).find('+00:00')] + 'Z' + isoformat_of(obj)[isoformat_of(obj).find('+00:00') + 6:] if '+00:00' in isoformat_of(obj) else isoformat_of(obj))",
                        "[effect] dtwire(result, obj)"])
    R.contract(C + "decode_datetime", prop="C11", types={"state": TStr}, returns=TObj(),
               # a plain date is recognised by the SHAPE of the encoded string (yyyy-mm-dd), never by the parsed value
               ensures=["same(result, date_of(parsed_dt(state)) if full_match(state, '[0-9][0-9][0-9][0-9]-[0-9][0-9]-[0-9][0-9]') else parsed_dt(state))", "[effect] dtwire(state, result)"],
               raises={"ValueError+": []}, labels={"regex_hints": [{}]})

    # ---- mementos
    R.spec("DEPS", ["sl", "vs"], "sl is not None and forall(int, lambda i: implies(0 <= i and i < len(sl), exists(obj, lambda f: f in vs and fnrefwire(sl[i], f)))) "
                                 "and forall(obj, lambda f: implies(f in vs, exists(int, lambda i: 0 <= i and i < len(sl) and fnrefwire(sl[i], f))))")
    R.spec("WIRE_MEMENTO", ["s", "v"], "dtwire(s['time'], v.time) and WIRE_IMD(s['invocationMetadata'], v.invocation_metadata) and DEPS(s['functionDependencies'], v.function_dependencies) "
                                       "and s['runner'] == v.runner and s['correlationId'] == v.correlation_id and VKEYWIRE(s['contentKey'], v.content_key)")
    R.uf("vkeywire", [TObj(), TObj()], TBool)
    R.spec("VKEYWIRE", ["s", "v"], "vkeywire(s, v)")
    MEM_KEYS = ["time", "invocationMetadata", "functionDependencies", "runner", "correlationId", "contentKey"]

    def leaf(rel, doc_first, may_raise=None):
        """A leaf codec used inside the memento codec: summarised by its definitional relation (its own contract is proved separately)."""
        def hook(ex, args, kwargs):
            a = args[-1]
            if may_raise and ex.choose([z3.BoolVal(True), z3.BoolVal(True)]) == 1:
                raise PyRaise(VExc(may_raise, [], exact=False))
            r = ex.fresh(rel + "_r", ObjSort)
            at = ex.box(a)
            ex.assume(ufs_all()[rel](at, r) if doc_first else ufs_all()[rel](r, at))
            return VObj(r)
        return hook
    R.func_hooks[C + "encode_versioned_data_source_key"] = leaf("vkeywire", False)
    R.func_hooks[C + "decode_versioned_data_source_key"] = leaf("vkeywire", True, "Exception")
    R.func_hooks[C + "encode_datetime"] = leaf("dtwire", False)
    R.func_hooks[C + "decode_datetime"] = leaf("dtwire", True, "Exception")
    R.contract(C + "encode_memento", prop="C11", types={"memento": TObj("nn:Memento")}, returns=DOC,
               requires=["memento.invocation_metadata.runtime is not None", "memento.invocation_metadata.result_type is not None", "memento.time is not None", "memento.function_dependencies is not None"],
               ensures=["WIRE_MEMENTO(result, memento)", "len(result) == %d" % len(MEM_KEYS)], raises={"ValueError": []},
               labels={"dict_literals_dynamic": True})
    R.contract(C + "decode_memento", prop="C11", types={"state": DOC}, returns=TObj(),
               ensures=["result is not None", "implies(state['functionDependencies'] is not None, WIRE_MEMENTO(state, result))"],
               raises=dict(MALFORMED, **{"Exception+": []}))
