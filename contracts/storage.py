"""Contracts for StorageBackendBase against the abstract MetadataSource / DataSource / Codec interfaces
(properties C05, C07, C19).

Abstract views (ghost fields of the interface entities):
  MetadataSource.mementos : "qn/hash" -> Memento         (the dictionary M of DESIGN 3.1)
  MetadataSource.writes   : number of mutating calls received          (C19)
  DataSource.values       : VersionedDataSourceKey -> object a load returns  (immutable per version, C07)
  DataSource.writes       : number of mutating calls received          (C19)
"""
from pyvc.ty import *  # noqa
from . import memory_cache


def load(R):
    memory_cache.load(R)
    VKey = R.record("VersionedDataSourceKey", key=TStr, version=TStr)
    DKey = R.record("DataSourceKey", key=TStr)
    R.record("ContentAddressableHash", key=TStr)
    R.attr("content_key", TOpt(VKey), mutable=True)
    R.attr("result_type", TObj("nn:enum:ResultType"))
    R.enum("ResultType", ["exception", "null", "boolean", "string", "binary", "number", "date", "timestamp", "list_result", "dictionary",
                          "array_boolean", "array_int8", "array_int16", "array_int32", "array_int64", "array_float32", "array_float64",
                          "index", "series", "data_frame", "partition", "memento_function"])
    R.opaque_class("FunctionReferenceWithArgHash", "reference")
    R.opaque_class("FunctionReferenceWithArguments", "reference")

    R.entity("MetadataSource", ("storage_base", "MetadataSource"), dict(
        mementos=TDict(TStr, TObj("Memento")), writes=TInt, meta=TDict(TStr, TObj()), meta_with_data=TDict(TStr, TBool)))
    R.entity("DataSource", ("storage_base", "DataSource"), dict(
        values=TDict(VKey, TObj()), writes=TInt, meta=TDict(TStr, TObj())))
    R.entity("Codec", ("storage_base", "Codec"), dict())
    R.entity("StorageBackendBase", ("storage_base", "StorageBackendBase"), dict(
        read_only=TBool, _data_source=TEnt("DataSource"), _metadata_source=TEnt("MetadataSource"),
        _memory_cache=TOpt(TEnt("MemoryCache")), codec=TEnt("Codec")))

    MS, DS, CO, BE = TEnt("MetadataSource"), TEnt("DataSource"), TEnt("Codec"), TEnt("StorageBackendBase")
    M = TObj("nn:Memento")
    FWH = TObj("nn:FunctionReferenceWithArgHash")
    FWA = TObj("nn:FunctionReferenceWithArguments")
    FR = TObj("nn:FunctionReference")
    RT = TObj("nn:enum:ResultType")

    # ---------------------------------------------------------------- specification functions
    R.spec("HK", ["f"], "f.fn_reference.qualified_name + '/' + f.arg_hash")
    # what reading a memento's result yields from the store
    R.spec("LOADED", ["ds", "rt", "ck"], "None if same(rt, ResultType.null) else ds.values[ck]")
    R.spec("STORED_VALUE", ["b", "m"], "LOADED(b._data_source, m.invocation_metadata.result_type, m.content_key)")
    R.spec("READABLE", ["ds", "rt", "ck"], "same(rt, ResultType.null) or (ck is not None and ck in ds.values)")
    # cache/store coherence (C05): what the cache holds is what the store holds
    R.spec("COH", ["b"], "implies(b._memory_cache is not None, INV(b._memory_cache) and forall(str, lambda k: "
                         "implies(k in b._memory_cache.cache, k in b._metadata_source.mementos and same(b._memory_cache.cache[k].memento, b._metadata_source.mementos[k]) "
                         "and KEY(b._metadata_source.mementos[k]) == k "
                         "and implies(b._memory_cache.cache[k].has_value, EQV(b._memory_cache.cache[k].value, STORED_VALUE(b, b._metadata_source.mementos[k])))) "
                         "and implies(k in b._memory_cache.refs, k in b._metadata_source.mementos and EQV(b._memory_cache.refs[k], STORED_VALUE(b, b._metadata_source.mementos[k])))))")
    # every stored memento sits under its own key and its content is readable
    R.spec("STORE_OK", ["b"], "forall(str, lambda k: implies(k in b._metadata_source.mementos, b._metadata_source.mementos[k] is not None and KEY(b._metadata_source.mementos[k]) == k "
                              "and READABLE(b._data_source, b._metadata_source.mementos[k].invocation_metadata.result_type, b._metadata_source.mementos[k].content_key)))")
    R.spec("STORE_SAME", ["b"], "b._metadata_source.writes == old(b._metadata_source.writes) and b._data_source.writes == old(b._data_source.writes) "
                                "and forall(str, lambda k: (k in b._metadata_source.mementos) == old(k in b._metadata_source.mementos) and same(b._metadata_source.mementos[k], old(b._metadata_source.mementos[k]))) "
                                "and forall(VersionedDataSourceKey, lambda v: (v in b._data_source.values) == old(v in b._data_source.values) and same(b._data_source.values[v], old(b._data_source.values[v]))) "
                                "and forall(obj, lambda m: m.content_key == old(m.content_key))")
    R.spec("NO_WRITES", ["b"], "b._metadata_source.writes == old(b._metadata_source.writes) and b._data_source.writes == old(b._data_source.writes)")

    # ---------------------------------------------------------------- abstract interface contracts (assumed here; implementations are checked against them separately)
    P = "storage_base:MetadataSource."
    R.contract(P + "get_mementos", assumed=True, types={"self": MS, "fns": TList(FWH)}, returns=TList(TObj("Memento")),
               ensures=["len(result) == len(fns)",
                        "forall(int, lambda j: implies(0 <= j and j < len(fns), same(result[j], self.mementos[HK(fns[j])] if HK(fns[j]) in self.mementos else None)))"])
    R.contract(P + "all_mementos_exist", assumed=True, types={"self": MS, "fns": TList(FWH)}, returns=TBool,
               ensures=["result == forall(int, lambda j: implies(0 <= j and j < len(fns), HK(fns[j]) in self.mementos))"])
    R.contract(P + "put_memento", assumed=True, types={"self": MS, "memento": M},
               ensures=["self.writes == old(self.writes) + 1", "KEY(memento) in self.mementos", "same(self.mementos[KEY(memento)], memento)",
                        "forall(str, lambda k: implies(k != KEY(memento), (k in self.mementos) == old(k in self.mementos) and same(self.mementos[k], old(self.mementos[k]))))"],
               # an I/O fault: the memento dictionary is unchanged (the link is published last and atomically -- proved for _FilesystemDataSource.output under C08)
               raises={"OSError+": ["self.writes >= old(self.writes)", "forall(str, lambda k: (k in self.mementos) == old(k in self.mementos) and same(self.mementos[k], old(self.mementos[k])))"]},
               modifies=["self.mementos", "self.writes"])
    R.contract(P + "forget_call", assumed=True, types={"self": MS, "fn_with_arg_hash": FWH},
               ensures=["self.writes == old(self.writes) + 1", "HK(fn_with_arg_hash) not in self.mementos",
                        "forall(str, lambda k: implies(k != HK(fn_with_arg_hash), (k in self.mementos) == old(k in self.mementos) and same(self.mementos[k], old(self.mementos[k]))))"],
               modifies=["self.mementos", "self.writes", "self.meta", "self.meta_with_data"])
    R.contract(P + "forget_everything", assumed=True, types={"self": MS},
               ensures=["self.writes == old(self.writes) + 1", "forall(str, lambda k: k not in self.mementos)"],
               modifies=["self.mementos", "self.writes", "self.meta", "self.meta_with_data"])
    R.contract(P + "forget_function", assumed=True, types={"self": MS, "fn_reference": FR},
               ensures=["self.writes == old(self.writes) + 1",
                        "forall(str, lambda k: (k in self.mementos) == (old(k in self.mementos) and not k.startswith(fn_reference.qualified_name + '/')) and same(self.mementos[k], old(self.mementos[k])))"],
               modifies=["self.mementos", "self.writes", "self.meta", "self.meta_with_data"])
    R.contract(P + "list_functions", assumed=True, types={"self": MS}, returns=TList(TObj("FunctionReference")), ensures=[])
    R.contract(P + "list_mementos", assumed=True, types={"self": MS, "fn": FR, "limit": TOpt(TInt)}, returns=TList(TObj("Memento")), ensures=[])

    R.contract("storage_base:Codec.load", assumed=True, types={"self": CO, "result_type": RT, "data_source": DS, "key": TOpt(VKey)}, returns=TObj(),
               when_raises={"OSError+": "not READABLE(data_source, result_type, key)"},
               ensures=["same(result, LOADED(data_source, result_type, key))"],
               notes="assumed at this level: load returns the object stored under that version (pickle round trip is a bounded stand-in); BlobStrategy.store is proved under C07")
    R.contract("storage_base:Codec.store", assumed=True, types={"self": CO, "result_type": RT, "data_source": DS, "key_override": TOpt(TStr), "obj": TObj()}, returns=TOpt(VKey),
               raises={"OSError+": ["data_source.writes >= old(data_source.writes)",
                                    "forall(VersionedDataSourceKey, lambda v: implies(old(v in data_source.values), v in data_source.values and same(data_source.values[v], old(data_source.values[v]))))"]},
               ensures=["data_source.writes >= old(data_source.writes)",
                        "READABLE(data_source, result_type, result)", "EQV(LOADED(data_source, result_type, result), None if same(result_type, ResultType.null) else obj)",
                        # versions are immutable: whatever could be read before reads the same afterwards (C07)
                        "forall(VersionedDataSourceKey, lambda v: implies(old(v in data_source.values), v in data_source.values and same(data_source.values[v], old(data_source.values[v]))))"],
               modifies=["data_source.values", "data_source.writes"])

    # ---------------------------------------------------------------- StorageBackendBase
    B = "storage_base:StorageBackendBase."
    R.contract(B + "is_memoized", prop="C05", modifies=["self._memory_cache.lru_deque"], types={"self": BE, "fn_reference": FR, "arg_hash": TStr}, returns=TBool,
               requires=["COH(self)"],
               ensures=["COH(self)", "STORE_SAME(self)",
                        "result == (FKEY(fn_reference, arg_hash) in self._metadata_source.mementos)"])

    R.contract(B + "memoize", prop="C05", modifies=["self._memory_cache.cache", "self._memory_cache.lru_deque", "self._memory_cache.memory_usage", "self._memory_cache.refs", "self._data_source.values", "self._data_source.writes", "self._metadata_source.mementos", "self._metadata_source.writes", "heap:content_key"], types={"self": BE, "key_override": TOpt(TStr), "memento": M, "result": TObj()},
               requires=["COH(self)", "STORE_OK(self)",
                         # caller invariant (runner): the recorded result type describes the value
                         "implies(same(memento.invocation_metadata.result_type, ResultType.null), result is None)",
                         # C08 (fault case only): the memento being written is a new object, not the one already stored (the runner memoizes only what is
                         # not memoized); otherwise assigning its content key would re-point a stored entry before the write succeeded
                         "[C08] forall(str, lambda k: implies(k in self._metadata_source.mementos, not same(self._metadata_source.mementos[k], memento)))"],
               ensures=["implies(self.read_only, STORE_SAME(self) and COH(self))",
                        "[C19] implies(self.read_only, NO_WRITES(self) and implies(self._memory_cache is not None, UNCHANGED(self._memory_cache)))",
                        "implies(not self.read_only, COH(self) and STORE_OK(self))",
                        # dictionary semantics: overwrite at the memento's key, nothing else changes
                        "implies(not self.read_only, KEY(memento) in self._metadata_source.mementos and same(self._metadata_source.mementos[KEY(memento)], memento))",
                        "implies(not self.read_only, EQV(STORED_VALUE(self, memento), result))",
                        "forall(str, lambda k: implies(k != KEY(memento), (k in self._metadata_source.mementos) == old(k in self._metadata_source.mementos) "
                        "and same(self._metadata_source.mementos[k], old(self._metadata_source.mementos[k])) "
                        "and implies(k in self._metadata_source.mementos, same(STORED_VALUE(self, self._metadata_source.mementos[k]), old(STORED_VALUE(self, self._metadata_source.mementos[k]))))))",
                        # C07: every version readable before is readable, with the same content, afterwards
                        "[C07] forall(VersionedDataSourceKey, lambda v: implies(old(v in self._data_source.values), v in self._data_source.values and same(self._data_source.values[v], old(self._data_source.values[v]))))",
                        ],
               # C08: an I/O fault anywhere in the write leaves every stored memento readable; so does a crash between the interface calls
               # ... and the cache must not claim a call the store does not hold (it would be reported as memoized and never written again)
               raises={"OSError+": ["[C08] STORE_OK(self)", "[C08] COH(self)"], "AssertionError": ["False"]},
               labels={"step_invariant": ["[C08] STORE_OK(self)"]})

    R.spec("CURRENT", ["b", "m"], "KEY(m) in b._metadata_source.mementos and same(b._metadata_source.mementos[KEY(m)], m)")
    R.spec("DS_SAME", ["b"], "b._data_source.writes == old(b._data_source.writes) "
                             "and forall(VersionedDataSourceKey, lambda v: (v in b._data_source.values) == old(v in b._data_source.values) and same(b._data_source.values[v], old(b._data_source.values[v]))) "
                             "and forall(obj, lambda m: m.content_key == old(m.content_key))")
    R.spec("CACHE_SAME", ["b"], "implies(b._memory_cache is not None, UNCHANGED(b._memory_cache) and forall(str, lambda k: (k in b._memory_cache.refs) == old(k in b._memory_cache.refs) and same(b._memory_cache.refs[k], old(b._memory_cache.refs[k]))))")
    RO = {"ValueError": ["[C05,C19] self.read_only", "[C19] STORE_SAME(self)", "[C19] CACHE_SAME(self)"]}

    R.contract(B + "read_result", prop="C05", modifies=["self._memory_cache.cache", "self._memory_cache.lru_deque", "self._memory_cache.memory_usage", "self._memory_cache.refs"], types={"self": BE, "memento": M}, returns=TObj(),
               requires=["COH(self)", "STORE_OK(self)", "CURRENT(self, memento)"],
               ensures=["COH(self)", "STORE_SAME(self)", "EQV(ret, STORED_VALUE(self, memento))"],
               raises={"OSError+": ["False"]})

    R.contract(B + "forget_call", prop="C05", modifies=["self._memory_cache.cache", "self._memory_cache.lru_deque", "self._memory_cache.memory_usage", "self._memory_cache.refs", "self._metadata_source.mementos", "self._metadata_source.writes", "self._metadata_source.meta", "self._metadata_source.meta_with_data"], types={"self": BE, "fn_with_arg_hash": FWH},
               requires=["COH(self)"],
               ensures=["not self.read_only", "COH(self)", "DS_SAME(self)", "HK(fn_with_arg_hash) not in self._metadata_source.mementos",
                        "forall(str, lambda k: implies(k != HK(fn_with_arg_hash), (k in self._metadata_source.mementos) == old(k in self._metadata_source.mementos) and same(self._metadata_source.mementos[k], old(self._metadata_source.mementos[k]))))"],
               raises=RO)

    R.contract(B + "forget_everything", prop="C05", modifies=["self._memory_cache.cache", "self._memory_cache.lru_deque", "self._memory_cache.memory_usage", "self._memory_cache.refs", "self._metadata_source.mementos", "self._metadata_source.writes", "self._metadata_source.meta", "self._metadata_source.meta_with_data"], types={"self": BE},
               requires=["COH(self)"],
               ensures=["not self.read_only", "COH(self)", "DS_SAME(self)", "forall(str, lambda k: k not in self._metadata_source.mementos)",
                        "implies(self._memory_cache is not None, self._memory_cache.memory_usage == 0)"],
               raises=RO)

    R.contract(B + "forget_function", prop="C05", modifies=["self._memory_cache.cache", "self._memory_cache.lru_deque", "self._memory_cache.memory_usage", "self._memory_cache.refs", "self._metadata_source.mementos", "self._metadata_source.writes", "self._metadata_source.meta", "self._metadata_source.meta_with_data"], types={"self": BE, "fn_reference": FR},
               requires=["COH(self)"],
               ensures=["not self.read_only", "COH(self)", "DS_SAME(self)",
                        "forall(str, lambda k: (k in self._metadata_source.mementos) == (old(k in self._metadata_source.mementos) and not k.startswith(fn_reference.qualified_name + '/')) "
                        "and same(self._metadata_source.mementos[k], old(self._metadata_source.mementos[k])))"],
               raises=RO)

    R.contract(B + "is_all_memoized", prop="C05", modifies=["self._memory_cache.lru_deque"], types={"self": BE, "fns": TList(FWA)}, returns=TBool,
               requires=["COH(self)"],
               ensures=["COH(self)", "STORE_SAME(self)",
                        "result == forall(int, lambda j: implies(0 <= j and j < len(fns), FKEY(fns[j].fn_reference, fns[j].arg_hash) in self._metadata_source.mementos))"],
               loops={1: ["len(comp_result) == loop_i", "forall(int, lambda j: implies(0 <= j and j < loop_i, same(comp_result[j].fn_reference, fns[j].fn_reference) and comp_result[j].arg_hash == fns[j].arg_hash))"]},
               labels={"comp_types": {1: TObj("nn:FunctionReferenceWithArgHash")}})

    R.contract(B + "get_mementos", prop="C05", modifies=["self._memory_cache.cache", "self._memory_cache.lru_deque", "self._memory_cache.memory_usage", "self._memory_cache.refs"], types={"self": BE, "fns": TList(FWH)}, returns=TList(TObj("Memento")),
               requires=["COH(self)", "STORE_OK(self)"],
               ensures=["COH(self)", "STORE_SAME(self)", "len(result) == len(fns)",
                        "forall(int, lambda j: implies(0 <= j and j < len(fns), same(result[j], self._metadata_source.mementos[HK(fns[j])] if HK(fns[j]) in self._metadata_source.mementos else None)))"],
               loops={2: ["COH(self)", "STORE_SAME(self)", "len(results) == loop_i", "query_index == rank(query_fns, loop_i)",
                          "forall(int, lambda j: implies(0 <= j and j < loop_i, same(results[j], self._metadata_source.mementos[HK(fns[j])] if HK(fns[j]) in self._metadata_source.mementos else None)))"]},
               labels={"local_types": {"results": TList(TObj("Memento"))}})

    R.contract(B + "list_functions", prop="C05", types={"self": BE}, returns=TList(TObj("FunctionReference")),
               requires=["COH(self)"], ensures=["COH(self)", "STORE_SAME(self)", "CACHE_SAME(self)"])
    R.contract(B + "list_mementos", prop="C05", types={"self": BE, "fn": FR, "limit": TOpt(TInt)}, returns=TList(TObj("Memento")),
               requires=["COH(self)"], ensures=["COH(self)", "STORE_SAME(self)", "CACHE_SAME(self)"])

    # ---------------------------------------------------------------- custom metadata (C05 clause "write and read custom metadata", C19)
    R.spec("MK", ["f", "key"], "HK(f) + '|' + key")
    R.contract(P + "write_metadata", assumed=True, types={"self": MS, "fn_with_arg_hash": FWH, "key": TStr, "value": TObj(), "stored_with_data": TBool},
               ensures=["self.writes == old(self.writes) + 1", "MK(fn_with_arg_hash, key) in self.meta", "same(self.meta[MK(fn_with_arg_hash, key)], value)",
                        "self.meta_with_data[MK(fn_with_arg_hash, key)] == stored_with_data",
                        "forall(str, lambda k: implies(k != MK(fn_with_arg_hash, key), (k in self.meta) == old(k in self.meta) and same(self.meta[k], old(self.meta[k])) and self.meta_with_data[k] == old(self.meta_with_data[k])))"],
               modifies=["self.meta", "self.meta_with_data", "self.writes"])
    R.contract(P + "read_metadata", assumed=True, types={"self": MS, "fn_with_arg_hash": FWH, "key": TStr, "retry_on_none": TBool}, returns=TObj(),
               ensures=["implies(MK(fn_with_arg_hash, key) not in self.meta, result is None)",
                        "implies(MK(fn_with_arg_hash, key) in self.meta and not self.meta_with_data[MK(fn_with_arg_hash, key)], same(result, self.meta[MK(fn_with_arg_hash, key)]) and not isinstance(result, ResultIsWithData))",
                        "implies(MK(fn_with_arg_hash, key) in self.meta and self.meta_with_data[MK(fn_with_arg_hash, key)], isinstance(result, ResultIsWithData))"])
    D = "storage_base:DataSource."
    R.contract(D + "output_metadata", assumed=True, types={"self": DS, "content_key": VKey, "metadata_key": TStr, "value": TObj()},
               ensures=["self.writes == old(self.writes) + 1", "same(self.meta[content_key.key + '#' + content_key.version + '|' + metadata_key], value)"],
               raises={"OSError+": []}, modifies=["self.meta", "self.writes"])
    # deletions through the data source, in the `values` view of this module (not called by the current code of StorageBackendBase:
    # stated so that new code calling them is checked against what they do instead of stopping the checker)
    R.contract(D + "delete_all_versions", assumed=True, types={"self": DS, "key": TOpt(DKey), "recursive": TBool},
               raises={"OSError+": ["self.writes >= old(self.writes)"]},
               ensures=["self.writes == old(self.writes) + 1",
                        "forall(VersionedDataSourceKey, lambda v: implies(v.key == key.key, v not in self.values))",
                        "forall(VersionedDataSourceKey, lambda v: implies(v.key != key.key, (v in self.values) == old(v in self.values) and same(self.values[v], old(self.values[v]))))"],
               modifies=["self.values", "self.writes"], notes="interface: deletes every version of the key")
    R.contract(D + "delete_nonversioned_key", assumed=True, types={"self": DS, "key": TOpt(DKey)},
               raises={"OSError+": ["self.writes >= old(self.writes)"]},
               ensures=["self.writes == old(self.writes) + 1",
                        "forall(VersionedDataSourceKey, lambda v: (v in self.values) == old(v in self.values) and same(self.values[v], old(self.values[v])))"],
               modifies=["self.writes"], notes="interface: removes the link only; versions stay")
    R.contract(D + "input_metadata", assumed=True, types={"self": DS, "content_key": TOpt(VKey), "metadata_key": TStr}, returns=TObj(),
               raises={"OSError+": []}, ensures=["implies(content_key is not None, same(result, self.meta[content_key.key + '#' + content_key.version + '|' + metadata_key]))"])

    R.contract(B + "write_metadata", prop="C05", modifies=["self._data_source.writes", "self._data_source.meta", "self._metadata_source.writes", "self._metadata_source.meta", "self._metadata_source.meta_with_data"], types={"self": BE, "fn_with_arg_hash": FWH, "key": TStr, "value": TObj(), "store_with_content_key": TOpt(VKey)},
               requires=["COH(self)"],
               ensures=["not self.read_only", "COH(self)",
                        "forall(str, lambda k: (k in self._metadata_source.mementos) == old(k in self._metadata_source.mementos) and same(self._metadata_source.mementos[k], old(self._metadata_source.mementos[k])))",
                        "MK(fn_with_arg_hash, key) in self._metadata_source.meta",
                        "implies(store_with_content_key is None, same(self._metadata_source.meta[MK(fn_with_arg_hash, key)], value) and not self._metadata_source.meta_with_data[MK(fn_with_arg_hash, key)])",
                        "implies(store_with_content_key is not None, self._metadata_source.meta_with_data[MK(fn_with_arg_hash, key)] "
                        "and same(self._data_source.meta[store_with_content_key.key + '#' + store_with_content_key.version + '|' + key], value))"],
               raises={"ValueError": ["[C05,C19] self.read_only", "[C19] STORE_SAME(self)", "[C19] CACHE_SAME(self)",
                                      "[C19] forall(str, lambda k: (k in self._data_source.meta) == old(k in self._data_source.meta) and same(self._data_source.meta[k], old(self._data_source.meta[k])))",
                                      "[C19] forall(str, lambda k: (k in self._metadata_source.meta) == old(k in self._metadata_source.meta) and same(self._metadata_source.meta[k], old(self._metadata_source.meta[k])))"],
                       "OSError+": ["not self.read_only"]})

    R.contract(B + "read_metadata", prop="C05", modifies=["self._memory_cache.cache", "self._memory_cache.lru_deque", "self._memory_cache.memory_usage", "self._memory_cache.refs"], types={"self": BE, "fn_with_arg_hash": FWH, "key": TStr, "retry_on_none": TBool}, returns=TObj(),
               requires=["COH(self)", "STORE_OK(self)"],
               ensures=["COH(self)", "STORE_SAME(self)",
                        "implies(MK(fn_with_arg_hash, key) not in self._metadata_source.meta, ret is None)",
                        "implies(MK(fn_with_arg_hash, key) in self._metadata_source.meta and not self._metadata_source.meta_with_data[MK(fn_with_arg_hash, key)], same(ret, self._metadata_source.meta[MK(fn_with_arg_hash, key)]))"],
               raises={"OSError+": ["STORE_SAME(self)"]})
