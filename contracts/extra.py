"""Syntactic obligations on module-level constants (no function body to execute): read from the real source on every run."""
import ast
import os


def env_salt(pid, tier, seed):
    """C03: the environment salt is the digest of a JSON rendering with sorted keys of a dict literal whose keys are string literals and whose
    values are literals, nested such dicts, or a slice of pandas.__version__ -- nothing that depends on the process (hash seed, time, ...)."""
    repo = os.environ.get("PYVC_REPO", "/repo")
    path = os.path.join(repo, "twosigma", "memento", "configuration.py")
    tree = ast.parse(open(path).read())
    node = None
    for st in tree.body:
        if isinstance(st, ast.Assign) and any(isinstance(t, ast.Name) and t.id == "ENVIRONMENT_HASH_BYTES" for t in st.targets):
            node = st.value
    why = None

    def literal_dict(d):
        if not isinstance(d, ast.Dict):
            return "the hashed object is not a dict literal"
        for k, v in zip(d.keys, d.values):
            if not (isinstance(k, ast.Constant) and isinstance(k.value, str)):
                return "a key is not a string literal"
            if isinstance(v, ast.Dict):
                r = literal_dict(v)
                if r:
                    return r
            elif isinstance(v, ast.Constant):
                continue
            elif "pandas.__version__" in ast.unparse(v) and all(isinstance(x, (ast.Subscript, ast.Slice, ast.Attribute, ast.Name, ast.Constant, ast.Call, ast.Load)) or isinstance(x, ast.expr_context)
                                                                   for x in ast.walk(v)):
                continue
            else:
                return "value %s is neither a literal nor a slice of pandas.__version__" % ast.unparse(v)
        return None
    if node is None:
        why = "ENVIRONMENT_HASH_BYTES is not assigned at module level"
    else:
        dumps = [n for n in ast.walk(node) if isinstance(n, ast.Call) and ast.unparse(n.func) == "json.dumps"]
        if len(dumps) != 1:
            why = "expected exactly one json.dumps call"
        else:
            d = dumps[0]
            sk = [k for k in d.keywords if k.arg == "sort_keys"]
            if not (sk and isinstance(sk[0].value, ast.Constant) and sk[0].value.value is True):
                why = "json.dumps is not called with sort_keys=True"
            elif not d.args:
                why = "json.dumps has no positional argument"
            else:
                why = literal_dict(d.args[0])
        if why is None and not ast.unparse(node).startswith("hashlib.sha256("):
            why = "the salt is not a SHA-256 digest"
    res = {"name": "environment-salt-is-canonical", "obligations": 1, "discharged": 0 if why else 1, "failed": [], "undecided": [],
           "samples": [{"obligation": "configuration:ENVIRONMENT_HASH_BYTES/canonical-literal", "kind": "syntactic", "verdict": why or "holds: sha256(json.dumps(<literal dict>, sort_keys=True))"}]}
    if why:
        res["failed"].append({"function": "configuration:ENVIRONMENT_HASH_BYTES", "name": "configuration:ENVIRONMENT_HASH_BYTES/canonical-literal", "kind": "syntactic",
                              "clause": "the environment salt is sha256(json.dumps(<dict of literals>, sort_keys=True))", "model": None, "reason": why,
                              "native": {"reproduced": None, "detail": "syntactic obligation on a module-level constant: " + why}})
    return res


def crash_faults(pid, tier, seed):
    """C08, thorough tier only: BOUNDED cross-check of what the contracts assume (OS model, path algebra, the refinement step, the JSON
    round trip of a memento, the runner's handlers).  One memoization of one result by one function on the real FilesystemStorageBackend
    with every (primitive, outcome) fault of contracts/crash_replay.FAULTS injected, then the property observed after a restart.
    Never counted as proved: reported under bounded_standins; a violating fault is a VIOLATION with its failing history."""
    import json
    import subprocess
    if tier != "thorough":
        return {"name": "crash-fault-enumeration", "obligations": 0, "discharged": 0, "failed": [], "undecided": [], "skipped": "thorough tier only"}
    here = os.path.dirname(os.path.dirname(os.path.abspath(__file__)))
    repo = os.environ.get("PYVC_REPO", "/repo")
    p = subprocess.run(["/venv/bin/python", os.path.join(here, "contracts", "crash_replay.py"), repo], capture_output=True, text=True, timeout=1200,
                       env=dict(os.environ, PYTHONPATH=here, PYVC_REPO=repo))
    res = {"name": "crash-fault-enumeration", "obligations": 0, "discharged": 0, "failed": [], "undecided": []}
    try:
        d = json.loads(p.stdout)
    except Exception:
        res["undecided"].append({"function": "contracts/crash_replay.py", "obligation": "fault enumeration", "reason": "harness produced no result: " + (p.stderr or p.stdout)[-400:]})
        return res
    bound = "one memoization of one dict result by one function, on an empty store and after a second function with the same content was memoized; %d mutating primitives in all; %d (primitive, outcome) faults; " \
            "outcomes: crash after open, crash / error at write and close with nothing / half / all of the pending data on disk, crash after / error at replace and makedirs" % (len(d["primitives"]), d["faults_tried"])
    res["bounded_standins"] = [{"what": "fault-injection run of the real code (labelled bounded, not counted as proved)", "bound": bound,
                                "result": "no violating fault" if not d["violating"] else "%d violating faults" % len(d["violating"])}]
    for v in d["violating"][:1]:
        res["failed"].append({"function": "storage_filesystem:_FilesystemDataSource.output", "name": "bounded/crash-fault-enumeration/#%d %s %s" % (v["primitive"], v["name"], "/".join(v["fault"])),
                              "kind": "bounded-fault-injection", "clause": "after any fault of a memoization every later call returns the right value, raises nothing and is served from the store again",
                              "model": v, "reason": "; ".join(v["problems"][:3]),
                              "native": {"reproduced": True, "detail": "fault %s at primitive #%d %s(%s): %s" % ("/".join(v["fault"]), v["primitive"], v["name"], v["path"], "; ".join(v["problems"][:3]))}})
    return res


def fixed_demos(pid, tier, seed):
    """Thorough tier only: BOUNDED regression guard for the defects recorded as fixed in known_findings.json.  Each has a native demonstration under
    findings/ (the failing input, call sequence or history, run against the real code); on a tree where the defect has returned the demo exits 1 and
    the check reports a VIOLATION with that demo as the failing input.  Never counted as proved: listed under bounded_standins."""
    import json
    import re
    import subprocess
    if tier != "thorough":
        return {"name": "fixed-defect-demos", "obligations": 0, "discharged": 0, "failed": [], "undecided": [], "skipped": "thorough tier only"}
    here = os.path.dirname(os.path.dirname(os.path.abspath(__file__)))
    repo = os.environ.get("PYVC_REPO", "/repo")
    with open(os.path.join(here, "known_findings.json")) as f:
        known = json.load(f)
    res = {"name": "fixed-defect-demos", "obligations": 0, "discharged": 0, "failed": [], "undecided": [], "bounded_standins": []}
    for line in known.get("fixed", []):
        m = re.match(r"fixed: property=(C\d+) (\w+) ", line)
        demos = re.findall(r"findings/([\w.]+\.py)", line)
        if not m or m.group(1) != pid or not demos:
            continue
        for d in demos:
            path = os.path.join(here, "findings", d)
            try:
                p = subprocess.run(["/venv/bin/python", path, repo], capture_output=True, text=True, timeout=600, env=dict(os.environ, PYVC_REPO=repo))
            except Exception as e:
                res["undecided"].append({"function": "findings/" + d, "obligation": "native demonstration", "reason": "demo did not finish: %s" % e})
                continue
            out = (p.stdout or "").strip().splitlines()
            res["bounded_standins"].append({"what": "native demonstration of the repaired defect %s (%s): findings/%s" % (m.group(2), pid, d),
                                            "bound": "the one input / call sequence / history of the demonstration", "result": "holds" if p.returncode == 0 else "exit %d" % p.returncode})
            if p.returncode == 1:
                res["failed"].append({"function": "findings/" + d, "name": "bounded/fixed-defect-demo/" + d, "kind": "bounded-native-demo",
                                      "clause": "the defect repaired by %s does not return" % m.group(2), "model": {"demo": "findings/" + d, "output": out[-6:]},
                                      "reason": "; ".join(out[-3:]),
                                      "native": {"reproduced": True, "detail": "findings/%s exits 1 on this tree: %s" % (d, "; ".join(out[-3:]))}})
            elif p.returncode != 0:
                res["undecided"].append({"function": "findings/" + d, "obligation": "native demonstration", "reason": "demo exit %d: %s" % (p.returncode, (p.stderr or "")[-300:])})
    return res
