"""Contracts for argument binding and hashing (property C04): FunctionReferenceWithArguments._compute_effective_kwargs /
_compute_effective_kwargs_with_context_args / __init__, ArgumentHasher.compute_hash, ArgumentHasher._encode (one level),
MementoFunctionBase.partial.

The binding specification BIND (from the property: the key depends on the values bound to the parameters, not on how they were
passed): a parameter name k is bound iff it is a call keyword, or a partial keyword, or one of the first len(partial_args)
parameters, or the r-th parameter not bound by the partial application for some r < len(args); its value is, in that priority
order, the call keyword's, the positional argument's, the partial positional's, the partial keyword's.  Parameter names are
distinct strings (from inspect.signature): expressed by the ghost inverse name_index.
"""
import z3

from pyvc.ty import *  # noqa
from pyvc.engine import PyRaise, Unsupported


def load(R):
    for a, t in dict(partial_kwargs=TObj("nn:dict"), parameter_names=TObj("nn:list"), partial_args=TObj("nn:tuple"), memento_fn=TObj(), qualified_name=TObj()).items():
        R.attr(a, t)
    for n, (a, r) in dict(name_index=([TObj(), TStr], TInt), normalized=([TObj()], TObj()), enc=([TObj()], TObj()), nj=([TObj()], TStr), utf8=([TStr], TObj()),
                          sha256hex=([TObj()], TStr), aslist=([TObj()], TObj()), astuple=([TObj()], TObj()), encwire=([TObj(), TObj()], TBool)).items():
        R.uf(n, a, r)
    ufs = {k: v[0] for k, v in R.ufs.items()}
    from .common import sequence_passthrough
    sequence_passthrough(R, ufs)
    KW = TDict(TStr, TObj())
    R.entity("FunctionReferenceWithArguments", ("reference", "FunctionReferenceWithArguments"), dict(
        fn_reference=TObj("nn:FunctionReference"), args=TObj("nn:tuple"), kwargs=TObj("nn:dict"), context_args=TObj(), effective_kwargs=KW,
        effective_kwargs_with_context_args=KW, arg_hash=TStr))
    FWA = TEnt("FunctionReferenceWithArguments")
    R.plain_truthy.update({"FunctionReference"})

    # ---- parameter names: distinct strings with ghost inverse
    R.spec("PN", ["f"], "f.fn_reference.parameter_names")
    R.spec("PA", ["f"], "f.fn_reference.partial_args")
    R.spec("PK", ["f"], "f.fn_reference.partial_kwargs")
    R.spec("NAMES_OK", ["pn"], "forall(int, lambda i: implies(0 <= i and i < len(pn), isinstance(pn[i], str) and name_index(pn, pn[i]) == i))")
    R.spec("IN_PN", ["pn", "k"], "0 <= name_index(pn, k) and name_index(pn, k) < len(pn) and pn[name_index(pn, k)] == k")
    R.spec("POS", ["pn", "k"], "name_index(pn, k)")
    # bound by the partial application
    R.spec("B1", ["f", "k"], "k in PK(f) or (IN_PN(PN(f), k) and POS(PN(f), k) < len(PA(f)))")
    R.spec("V1", ["f", "k"], "PA(f)[POS(PN(f), k)] if (IN_PN(PN(f), k) and POS(PN(f), k) < len(PA(f))) else PK(f)[k]")
    def sp_free_rank(ex, n):
        """free_rank(f, p): how many of the first p parameters the partial application leaves unbound -- the specification's own
        definition (recurrence over the parameter list).  When the code computes the list of remaining parameters with a filter
        comprehension (local `remaining_parameter_names`), the comprehension's rank IS this function provided its recurrence matches
        (proved as a separate clause); otherwise the uninterpreted function with its defining recurrence is used and verdicts need
        native confirmation (the code was restructured)."""
        f, p_ = ex.ev(n.args[0]), ex.ev(n.args[1])
        local = ex.st.env.get("remaining_parameter_names")
        lst = ex.cont(local) if isinstance(local, VCont) else None
        if lst is not None and getattr(lst, "rank", None) is not None:
            ex.touch(TInt, p_.t)
            return VInt(lst.rank[p_.t])
        ex.drift = True
        if not hasattr(ex, "dropped_invariants"):
            ex.dropped_invariants = set()
        FR = z3.Function("free_rank", ObjSort, z3.IntSort(), z3.IntSort())
        ft = ex.box(f)
        done = ex.st.ghost.setdefault("$free_rank_axioms", set())
        if ft.get_id() not in done and not ex.bound_ids and ex.collector is None:
            ex.st.ghost["$free_rank_axioms"] = set(done) | {ft.get_id()}
            ex.assume(FR(ft, 0) == 0)

            def step(q):
                b1 = ex.truth(ex.call_spec("B1", [f, ex.call_spec_index("PN", f, q)]))
                return z3.Implies(q >= 0, FR(ft, q + 1) == FR(ft, q) + z3.If(b1, 0, 1))
            ex.add_universal([TInt], step, "free-rank-recurrence")
        ex.touch(TInt, p_.t)
        return VInt(FR(ft, p_.t))
    R.spec_builtins["free_rank"] = sp_free_rank
    M = "reference:FunctionReferenceWithArguments."
    R.contract(M + "_compute_effective_kwargs", prop="C04", types={"self": FWA}, returns=KW,
               requires=["NAMES_OK(PN(self))"],
               ensures=[
                   # BIND: which names are bound ...
                   "forall(str, lambda k: (k in result) == (k in self.kwargs or B1(self, k) or (IN_PN(PN(self), k) and not B1(self, k) and free_rank(self, POS(PN(self), k)) < len(self.args))))",
                   # ... and to what: call keyword > positional > partial positional > partial keyword
                   "forall(str, lambda k: implies(k in self.kwargs, same(result[k], self.kwargs[k])))",
                   "forall(str, lambda k: implies(k not in self.kwargs and IN_PN(PN(self), k) and not B1(self, k) and free_rank(self, POS(PN(self), k)) < len(self.args), "
                   "same(result[k], self.args[free_rank(self, POS(PN(self), k))])))",
                   "forall(str, lambda k: implies(k not in self.kwargs and B1(self, k), same(result[k], V1(self, k))))",
                   # the r-th free parameter is the r-th parameter (in signature order) that the partial application leaves unbound
                   "forall(int, lambda p: implies(0 <= p and p < len(PN(self)), free_rank(self, p + 1) == free_rank(self, p) + (0 if B1(self, PN(self)[p]) else 1)))",
                   "free_rank(self, 0) == 0"],
               raises={"ValueError": ["len(PN(self)) < len(PA(self)) or True"]},
               loops={1: ["forall(str, lambda k: (k in result) == (k in PK(self) or (IN_PN(PN(self), k) and POS(PN(self), k) < loop_i)))",
                          "forall(str, lambda k: implies(IN_PN(PN(self), k) and POS(PN(self), k) < loop_i, same(result[k], PA(self)[POS(PN(self), k)])))",
                          "forall(str, lambda k: implies(k in PK(self) and not (IN_PN(PN(self), k) and POS(PN(self), k) < loop_i), same(result[k], PK(self)[k])))",
                          "len(PN(self)) >= len(PA(self))"],
                      3: ["forall(str, lambda k: (k in result) == (B1(self, k) or (IN_PN(PN(self), k) and not B1(self, k) and free_rank(self, POS(PN(self), k)) < loop_i)))",
                          "forall(str, lambda k: implies(IN_PN(PN(self), k) and not B1(self, k) and free_rank(self, POS(PN(self), k)) < loop_i, "
                          "same(result[k], self.args[free_rank(self, POS(PN(self), k))])))",
                          "forall(str, lambda k: implies(B1(self, k), same(result[k], V1(self, k))))",
                          "len(remaining_parameter_names) >= len(self.args)"]})
