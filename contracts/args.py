"""Contracts for argument binding and hashing (property C04): FunctionReferenceWithArguments._compute_effective_kwargs /
_compute_effective_kwargs_with_context_args / __init__, ArgumentHasher.compute_hash, ArgumentHasher._encode (one level),
MementoFunctionBase.partial.

The binding specification BIND (from the property: the key depends on the values bound to the parameters, not on how they were
passed): a parameter name k is bound iff it is a call keyword, or a partial keyword, or one of the first len(partial_args)
parameters, or the r-th parameter not bound by the partial application for some r < len(args); its value is, in that priority
order, the call keyword's, the positional argument's, the partial positional's, the partial keyword's.  Parameter names are
distinct strings (from inspect.signature): expressed by the ghost inverse name_index.
"""
import z3

from pyvc.ty import *  # noqa
from pyvc.engine import PyRaise, Unsupported


def load(R):
    for a, t in dict(partial_kwargs=TObj("nn:dict"), parameter_names=TObj("nn:list"), partial_args=TObj("nn:tuple"), memento_fn=TObj(), qualified_name=TObj()).items():
        R.attr(a, t)
    for n, (a, r) in dict(name_index=([TObj(), TStr], TInt), normalized=([TObj()], TObj()), enc=([TObj()], TObj()), nj=([TObj()], TStr), utf8=([TStr], TObj()),
                          sha256hex=([TObj()], TStr), aslist=([TObj()], TObj()), astuple=([TObj()], TObj()), encwire=([TObj(), TObj()], TBool)).items():
        R.uf(n, a, r)
    ufs = {k: v[0] for k, v in R.ufs.items()}
    from .common import sequence_passthrough
    sequence_passthrough(R, ufs)
    KW = TDict(TStr, TObj())
    R.entity("FunctionReferenceWithArguments", ("reference", "FunctionReferenceWithArguments"), dict(
        fn_reference=TObj("nn:FunctionReference"), args=TObj("nn:tuple"), kwargs=TObj("nn:dict"), context_args=TObj(), effective_kwargs=KW,
        effective_kwargs_with_context_args=KW, arg_hash=TStr))
    FWA = TEnt("FunctionReferenceWithArguments")
    R.plain_truthy.update({"FunctionReference"})

    # ---- parameter names: distinct strings with ghost inverse
    R.spec("PN", ["f"], "f.fn_reference.parameter_names")
    R.spec("PA", ["f"], "f.fn_reference.partial_args")
    R.spec("PK", ["f"], "f.fn_reference.partial_kwargs")
    R.spec("NAMES_OK", ["pn"], "forall(int, lambda i: implies(0 <= i and i < len(pn), isinstance(pn[i], str) and name_index(pn, pn[i]) == i))")
    R.spec("IN_PN", ["pn", "k"], "0 <= name_index(pn, k) and name_index(pn, k) < len(pn) and pn[name_index(pn, k)] == k")
    R.spec("POS", ["pn", "k"], "name_index(pn, k)")
    # From the property ("invariant under positional versus keyword passing, partial application"): moving an argument of a call into a partial
    # application must not change what it binds --  f.partial(*pa, **pk)(*a, **k)  binds what  f(*pa, *a, **pk, **k)  binds.  Positional
    # arguments, those of the partial application first, then those of the call, fill in order the parameters that no PARTIAL KEYWORD binds.
    R.spec("B1", ["f", "k"], "k in PK(f)")
    R.spec("NPOS", ["f"], "len(PA(f)) + len(f.args)")
    R.spec("POSV", ["f", "r"], "PA(f)[r] if r < len(PA(f)) else f.args[r - len(PA(f))]")
    def sp_free_rank(ex, n):
        """free_rank(f, p): how many of the first p parameters the partial application leaves unbound -- the specification's own
        definition (recurrence over the parameter list).  When the code computes the list of remaining parameters with a filter
        comprehension (local `unbound_parameter_names`), the comprehension's rank IS this function provided its recurrence matches
        (proved as a separate clause); otherwise the uninterpreted function with its defining recurrence is used and verdicts need
        native confirmation (the code was restructured)."""
        f, p_ = ex.ev(n.args[0]), ex.ev(n.args[1])
        local = ex.st.env.get("unbound_parameter_names")
        lst = ex.cont(local) if isinstance(local, VCont) else None
        if lst is not None and getattr(lst, "rank", None) is not None:
            ex.touch(TInt, p_.t)
            return VInt(lst.rank[p_.t])
        ex.drift = True
        if not hasattr(ex, "dropped_invariants"):
            ex.dropped_invariants = set()
        FR = z3.Function("free_rank", ObjSort, z3.IntSort(), z3.IntSort())
        ft = ex.box(f)
        done = ex.st.ghost.setdefault("$free_rank_axioms", set())
        if ft.get_id() not in done and not ex.bound_ids and ex.collector is None:
            ex.st.ghost["$free_rank_axioms"] = set(done) | {ft.get_id()}
            ex.assume(FR(ft, 0) == 0)

            def step(q):
                b1 = ex.truth(ex.call_spec("B1", [f, ex.call_spec_index("PN", f, q)]))
                return z3.Implies(q >= 0, FR(ft, q + 1) == FR(ft, q) + z3.If(b1, 0, 1))
            ex.add_universal([TInt], step, "free-rank-recurrence")
        ex.touch(TInt, p_.t)
        return VInt(FR(ft, p_.t))
    R.spec_builtins["free_rank"] = sp_free_rank
    M = "reference:FunctionReferenceWithArguments."
    R.contract(M + "_compute_effective_kwargs", prop="C04", types={"self": FWA}, returns=KW,
               requires=["NAMES_OK(PN(self))"],
               ensures=[
                   # BIND: which names are bound ...
                   "forall(str, lambda k: (k in result) == (k in self.kwargs or k in PK(self) or (IN_PN(PN(self), k) and k not in PK(self) and free_rank(self, POS(PN(self), k)) < NPOS(self))))",
                   # ... and to what: call keyword > positional (partial positionals first, then the call's) > partial keyword
                   "forall(str, lambda k: implies(k in self.kwargs, same(result[k], self.kwargs[k])))",
                   # every value that is presented is in the binding (or the call is refused): a positional value is never silently replaced by a call keyword
                   # naming the same parameter -- f(1, a=2) must not get the key of f(2)
                   "forall(str, lambda k: implies(IN_PN(PN(self), k) and k not in PK(self) and free_rank(self, POS(PN(self), k)) < NPOS(self), "
                   "same(result[k], POSV(self, free_rank(self, POS(PN(self), k))))))",
                   "forall(str, lambda k: implies(k not in self.kwargs and k in PK(self), same(result[k], PK(self)[k])))",
                   # the r-th positional parameter is the r-th parameter (in signature order) that no partial keyword binds
                   "forall(int, lambda p: implies(0 <= p and p < len(PN(self)), free_rank(self, p + 1) == free_rank(self, p) + (0 if PN(self)[p] in PK(self) else 1)))",
                   "free_rank(self, 0) == 0"],
               raises={"ValueError": []},
               loops={2: ["forall(str, lambda k: (k in result) == (k in PK(self) or (IN_PN(PN(self), k) and k not in PK(self) and free_rank(self, POS(PN(self), k)) < loop_i)))",
                          "forall(str, lambda k: implies(IN_PN(PN(self), k) and k not in PK(self) and free_rank(self, POS(PN(self), k)) < loop_i, "
                          "same(result[k], PA(self)[free_rank(self, POS(PN(self), k))])))",
                          "forall(str, lambda k: implies(k in PK(self), same(result[k], PK(self)[k])))",
                          "len(unbound_parameter_names) >= len(PA(self))"],
                      3: ["forall(str, lambda k: (k in result) == (k in PK(self) or (IN_PN(PN(self), k) and k not in PK(self) and free_rank(self, POS(PN(self), k)) < len(PA(self)) + loop_i)))",
                          "forall(str, lambda k: implies(IN_PN(PN(self), k) and k not in PK(self) and free_rank(self, POS(PN(self), k)) < len(PA(self)) + loop_i, "
                          "same(result[k], POSV(self, free_rank(self, POS(PN(self), k))))))",
                          "forall(str, lambda k: implies(k in PK(self), same(result[k], PK(self)[k])))",
                          "len(remaining_parameter_names) >= len(self.args)", "len(unbound_parameter_names) >= len(PA(self))"],
                      # the refusal loop: no call keyword names one of the first NPOS unbound parameters
                      4: ["forall(str, lambda k: implies(IN_PN(PN(self), k) and k not in PK(self) and free_rank(self, POS(PN(self), k)) < loop_i, k not in self.kwargs))",
                          "len(remaining_parameter_names) >= len(self.args)", "len(unbound_parameter_names) >= len(PA(self))"]},
               # remaining_parameter_names is a slice of the filter comprehension: element -> slice index -> comprehension index -> source index
               labels={})
    load_more(R)
    load_encode(R)
    load_init(R)


def load_more(R):
    """compute_hash, _compute_effective_kwargs_with_context_args, FunctionReferenceWithArguments.__init__, ArgumentHasher._encode."""
    KW = TDict(TStr, TObj())
    FWA = TEnt("FunctionReferenceWithArguments")
    M = "reference:FunctionReferenceWithArguments."
    A = "reference:ArgumentHasher."
    for n, (a, r) in dict(bytes_concat=([TObj(), TObj()], TObj()), empty_bytes=([], TObj()), isoformat_of=([TObj()], TStr), fn_reference_of=([TObj()], TObj()),
                          validated=([TObj(), TObj(), TObj()], TBool)).items():
        R.uf(n, a, r)
    ufs = {k: v[0] for k, v in R.ufs.items()}
    R.attr("hashed", TObj(), mutable=True)

    # ---- hashlib.sha256(): an accumulator; update appends, hexdigest hashes what was accumulated (assumed model of hashlib)
    def sha256(ex, args, kwargs):
        h = ex.fresh_obj("sha256")
        init = ufs["empty_bytes"]() if not args else ex.box(args[0])
        ex.st.objheap["hashed"] = z3.Store(ex.heap_arr("hashed", TObj()), h, init)
        return VObj(h, "sha256")
    R.constructors["hashlib.sha256"] = sha256

    def sha_update(ex, recv, args, kwargs):
        cur = ex.heap_arr("hashed", TObj())[recv.t]
        ex.st.objheap["hashed"] = z3.Store(ex.heap_arr("hashed", TObj()), recv.t, ufs["bytes_concat"](cur, ex.box(args[0])))
        return VNone
    R.obj_method_hooks["update"] = sha_update
    R.obj_method_hooks["hexdigest"] = lambda ex, recv, args, kwargs: VStr(ufs["sha256hex"](ex.heap_arr("hashed", TObj())[recv.t]))
    # the scalar case of the canonical JSON text under contract: the text of a scalar is json.dumps of THAT value (a function of the value as Python sees
    # it -- type included: true / 1 / 1.0 render differently), computed afresh on every call; the list / dict cases stay summarised by nj
    R.uf("json_scalar", [TObj()], TStr)
    R.external("json.dumps", returns=TStr, ensures=["result == json_scalar(arg0)"])
    R.contract(A + "_normalized_json@scalar", prop="C04", types={"obj": TObj()}, returns=TStr,
               requires=["obj is None or isinstance(obj, bool) or isinstance(obj, str) or isinstance(obj, int) or isinstance(obj, float)"],
               ensures=["result == json_scalar(obj)"])
    R.contract(A + "_normalized_json", assumed=True, types={"obj": TObj()}, returns=TStr, ensures=["result == nj(obj)"], raises={"ValueError": []},
               notes="assumed here: the normalised JSON text is a function of the encoded object (its independence of dict insertion order is NOT proved)")
    # the documented composition: hex(sha256(utf8(normalised-json(encode(effective kwargs)))))
    R.contract(A + "compute_hash", prop="C04", types={"effective_kwargs": TObj()}, returns=TStr,
               ensures=["result == sha256hex(bytes_concat(empty_bytes(), utf8(nj(enc(effective_kwargs)))))"], raises={"ValueError": []},
               )

    R.contract(M + "_compute_effective_kwargs_with_context_args", prop="C04", types={"self": FWA}, returns=KW,
               ensures=[
                   # the context arguments enter the hashed mapping under their own reserved key iff there are any; everything else is the effective kwargs
                   "forall(str, lambda k: implies(k != '_memento_context_args', (k in result) == (k in self.effective_kwargs) and same(result[k], self.effective_kwargs[k])))",
                   "implies(self.context_args is not None and len(self.context_args) > 0, '_memento_context_args' in result and same(result['_memento_context_args'], self.context_args))",
                   "implies(not (self.context_args is not None and len(self.context_args) > 0), ('_memento_context_args' in result) == ('_memento_context_args' in self.effective_kwargs))",
                   # what the function body receives is never touched by this
                   "forall(str, lambda k: (k in self.effective_kwargs) == old(k in self.effective_kwargs) and same(self.effective_kwargs[k], old(self.effective_kwargs[k])))"])


def load_encode(R):
    """ArgumentHasher._encode, one level (nested values related by encwire; enc(x) names the encoding of x)."""
    A = "reference:ArgumentHasher."
    ufs = {k: v[0] for k, v in R.ufs.items()}
    FAMILIES = ["datetime.date", "list", "dict", "MementoFunctionType"]
    R.spec("PRIM", ["a"], "a is None or isinstance(a, bool) or isinstance(a, str) or isinstance(a, int) or isinstance(a, float)")
    R.spec("ENC_CLASS_FACTS", ["v"], "implies(isinstance(v, datetime.datetime), isinstance(v, datetime.date)) and "
           + " and ".join("not (isinstance(v, %s) and isinstance(v, %s))" % (a_, b_) for i_, a_ in enumerate(FAMILIES) for b_ in FAMILIES[i_ + 1:])
           + " and implies(PRIM(v), " + " and ".join("not isinstance(v, %s)" % a_ for a_ in FAMILIES) + ")")
    R.spec("ENCLIST", ["rl", "al"], "(rl is None) == (al is None) and implies(rl is not None, len(rl) == len(al) and forall(int, lambda i: implies(0 <= i and i < len(rl), encwire(rl[i], al[i]))))")
    R.spec("ENCMAP", ["rd", "ad"], "forall(str, lambda k: (k in rd) == (k in ad) and implies(k in rd, encwire(rd[k], ad[k])))")
    R.spec("ENC1", ["r", "a"],
           "(PRIM(a) and same(r, a)) "
           "or (isinstance(a, datetime.datetime) and isinstance(r, dict) and len(r) == 2 and r['_mementoType'] == 'datetime' and r['iso8601'] == isoformat_of(a)) "
           "or (isinstance(a, datetime.date) and not isinstance(a, datetime.datetime) and isinstance(r, dict) and len(r) == 2 and r['_mementoType'] == 'date' and r['iso8601'] == isoformat_of(a)) "
           "or (isinstance(a, list) and isinstance(r, list) and ENCLIST(r, a)) "
           "or (isinstance(a, dict) and isinstance(r, dict) and ENCMAP(r, a)) "
           "or (isinstance(a, MementoFunctionType) and isinstance(r, dict) and len(r) == 5 and r['_mementoType'] == 'FunctionReference' "
           "and r['qualifiedName'] == fn_reference_of(a).qualified_name and r['parameterNames'] == fn_reference_of(a).parameter_names "
           "and encwire(r['partialKwargs'], fn_reference_of(a).partial_kwargs) "
           "and encwire(r['partialArgs'], aslist(fn_reference_of(a).partial_args) if truthy(fn_reference_of(a).partial_args) else None))")
    R.spec("LISTCOPY", ["l", "t"], "l is not None and len(l) == len(t) and forall(int, lambda i: implies(0 <= i and i < len(t), same(l[i], t[i])))")
    R.obj_method_hooks["isoformat"] = lambda ex, recv, args, kwargs: VStr(ufs["isoformat_of"](recv.t))

    def fn_reference_hook(ex, recv, args, kwargs):
        r = ufs["fn_reference_of"](recv.t)
        ex.assume(r != PyNone)
        return VObj(r, "FunctionReference")
    R.obj_method_hooks["fn_reference"] = fn_reference_hook
    R.contract(A + "_encode", prop="C04", types={"arg": TObj()}, returns=TObj(),
               ensures=["ENC1(result, arg)", "[effect] encwire(result, arg)", "[effect] same(result, enc(arg))",
                        # from the property ("differs whenever any bound value [or] its type ... differ"): the encoding of a user dictionary is never one of the
                        # tagged encodings (date / datetime / function reference), else a dict and a date get one key and the body receives the other value
                        "implies(isinstance(arg, dict), '_mementoType' not in result)"], raises={"ValueError": []},
               labels={"dict_literals_dynamic": True, "entry_axioms": ["ENC_CLASS_FACTS(arg)"], "touch_result": True})


def load_init(R):
    """FunctionReferenceWithArguments.__init__: what is normalised, what is bound, what is hashed, what the body will receive."""
    KW = TDict(TStr, TObj())
    FWA = TEnt("FunctionReferenceWithArguments")
    M = "reference:FunctionReferenceWithArguments."
    A = "reference:ArgumentHasher."
    R.uf("hash_of", [TObj()], TStr)
    R.contract(A + "normalize", assumed=True, types={"obj": TObj()}, returns=TObj("nn:object"), ensures=["same(result, normalized(obj))"], raises={"ValueError": []},
               notes="normalize = _decode(_encode(x)); _encode is proved one level (above), _decode and the idempotence of normalize are not under contract")
    R.contract("reference:validate_args", assumed=True, types={"args": TObj(), "_memento_context_args": TObj(), "kwargs": TObj()}, raises={"AssertionError": []}, ensures=[])
    R.exc_bases["FunctionNotFoundError"] = ["ValueError"]
    R.spec("NORM_ARGS", ["a"], "astuple(normalized(aslist(a))) if truthy(a) else None")
    R.contract(M + "__init__", prop="C04",
               types={"self": FWA, "fn_reference": TObj("nn:FunctionReference"), "args": TObj(), "kwargs": TObj(), "context_args": TObj()},
               requires=["NAMES_OK(fn_reference.parameter_names)"],
               ensures=["same(self.fn_reference, fn_reference)",
                        # arguments are normalised first; binding and hashing see only the normalised values
                        "implies(truthy(args), same(self.args, astuple(normalized(aslist(args))))) and implies(not truthy(args), len(self.args) == 0)",
                        "implies(truthy(kwargs), same(self.kwargs, normalized(kwargs))) and implies(not truthy(kwargs), len(self.kwargs) == 0)",
                        "implies(truthy(context_args), same(self.context_args, normalized(context_args))) and implies(not truthy(context_args), len(self.context_args) == 0)",
                        # the hash is computed from the effective kwargs plus the context arguments (reserved key), nothing else
                        "self.arg_hash == sha256hex(bytes_concat(empty_bytes(), utf8(nj(enc(self.effective_kwargs_with_context_args)))))",
                        "forall(str, lambda k: implies(k != '_memento_context_args', (k in self.effective_kwargs_with_context_args) == (k in self.effective_kwargs) "
                        "and same(self.effective_kwargs_with_context_args[k], self.effective_kwargs[k])))",
                        "implies(len(self.context_args) > 0, '_memento_context_args' in self.effective_kwargs_with_context_args and same(self.effective_kwargs_with_context_args['_memento_context_args'], self.context_args))",
                        # the effective kwargs are the binding of the normalised call (BIND, proved for _compute_effective_kwargs)
                        "forall(str, lambda k: implies(k in self.kwargs, k in self.effective_kwargs and same(self.effective_kwargs[k], self.kwargs[k])))"],
               raises={"FunctionNotFoundError": [], "ValueError": [], "AssertionError": []},
               modifies=["self.*"])
