"""Property table: which contract modules and which functions decide each property."""

PROPS = {}


def prop(pid, **kw):
    PROPS[pid] = kw


SB = "storage_base:MemoryCache."
MEMORY_CACHE_FUNCS = [SB + n for n in ("__init__", "_mark_used", "_evict", "get_mementos", "read_result", "is_memoized",
                                       "is_all_memoized", "put", "forget_call", "forget_everything", "forget_function")]

prop("C06",
     modules=["memory_cache"],
     functions=MEMORY_CACHE_FUNCS,
     design_ref="DESIGN.md section 6, C06",
     trusted=["history induction (DESIGN 3.3): invariant established by __init__ and preserved by every public method => holds after every finite history",
              "MemoryCache._estimate_object_size returns a non-negative int (assumed contract)"],
     )
