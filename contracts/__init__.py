"""Property table: which contract modules and which functions decide each property."""

PROPS = {}


def prop(pid, **kw):
    PROPS[pid] = kw


SB = "storage_base:MemoryCache."
MEMORY_CACHE_FUNCS = [SB + n for n in ("__init__", "_mark_used", "_evict", "get_mementos", "read_result", "is_memoized",
                                       "is_all_memoized", "put", "forget_call", "forget_everything", "forget_function")]

prop("C06",
     modules=["memory_cache"],
     functions=MEMORY_CACHE_FUNCS + [SB + "_pd_linreg_mem_usage"],
     function_modules={SB + "_pd_linreg_mem_usage": ["sizeest"]},
     design_ref="DESIGN.md section 6, C06",
     trusted=["history induction (DESIGN 3.3): invariant established by __init__ and preserved by every public method => holds after every finite history",
              "MemoryCache._estimate_object_size returns a non-negative int (assumed contract; its pandas branch _pd_linreg_mem_usage is proved non-negative; sys.getsizeof / pandas memory_usage are assumed non-negative); "
              "how close the estimate is to the real size is not claimed (dict and list results are estimated from one element)"],
     )

SBB = "storage_base:StorageBackendBase."
STORAGE_BASE_FUNCS = [SBB + n for n in ("is_memoized", "is_all_memoized", "get_mementos", "read_result", "memoize", "forget_call", "forget_everything",
                                        "forget_function", "list_functions", "list_mementos", "read_metadata", "write_metadata")]

CODEC_FUNCS = ["storage_base:Codec.BlobStrategy.store", "storage_base:Codec.NullStrategy.store"]

MB = "storage_memory:MemoryStorageBackend."
MEMORY_BACKEND_FUNCS = [MB + n for n in ("__init__", "_get_memento_key", "get_mementos", "is_memoized", "is_all_memoized", "read_result", "list_functions", "memoize",
                                         "forget_call", "forget_everything", "write_metadata", "read_metadata")]

FDS_ = "storage_filesystem:_FilesystemDataSource."
FDS_FUNCS = [FDS_ + n for n in ("_write_non_versioned_link", "output", "_read_non_versioned_link", "exists_nonversioned", "get_versioned_key",
                                "exists_versioned", "input_nonversioned", "input_versioned", "_delete_non_versioned_link", "delete_nonversioned_key", "_get_path_versioned@metadata-key")]
# the metadata area's path scheme and the forget operations on top of the abstract data source
META_PATH_FUNCS = ["storage_base:DataSourceMetadataSource." + n for n in ("_get_function_path", "_get_path", "_get_metadata_path", "_get_metadata_key",
                                                                          "forget_call", "forget_function", "forget_everything", "put_memento", "write_metadata", "list_mementos", "list_functions", "all_mementos_exist")]
prop("C05",
     modules=["storage", "codec"],
     # ... and the file-system data source (versioned objects, link files): its contracts over the ghost file system (written for C08) are what makes the
     # on-disk store the dictionary the abstract DataSource view assumes -- a key reads back the latest version written under it
     functions=MEMORY_CACHE_FUNCS + STORAGE_BASE_FUNCS + CODEC_FUNCS + MEMORY_BACKEND_FUNCS + FDS_FUNCS + META_PATH_FUNCS,
     function_modules=dict({f: ["membackend"] for f in MEMORY_BACKEND_FUNCS}, **{f: ["crash"] for f in FDS_FUNCS}, **{f: ["metapaths"] for f in META_PATH_FUNCS}),
     design_ref="DESIGN.md section 6, C05",
     trusted=["history induction (DESIGN 3.3) over the per-operation refinement contracts",
              "interface contracts of MetadataSource / DataSource / Codec are assumed at this level (abstract methods)"],
     assumptions=["qualified names contain no '/', so 'qn/hash' keys the dictionary of (function, argument hash) pairs",
                  "no I/O fault occurs inside an operation (faults are C08's subject): after an OSError the coherence invariant is not claimed",
                  "memory backend: forget_function, list_mementos and the 'every live function is listed' direction of list_functions are not under contract; "
                  "the three maps and the rows of the two defaultdicts are separate objects (representation invariant REP, established by __init__ and preserved by every method under contract)",
                  "read_result is called with the memento currently stored for that call"],
     )

C07_STORE_FUNCS = [SBB + n for n in ("memoize", "read_result", "forget_call", "forget_everything", "forget_function")]
prop("C07",
     modules=["codec"],
     # "a memento keeps reading exactly the bytes that were stored ... whatever is memoized ... or forgotten afterwards": the storage operations keep every
     # readable version readable with the same content (memoize: the [C07] clause; forget_*: the data source is not touched; read_result: through the
     # memento's own content key)
     functions=CODEC_FUNCS + C07_STORE_FUNCS,
     function_modules={f: ["storage"] for f in C07_STORE_FUNCS},
     assume_props=["C05"],
     design_ref="DESIGN.md section 6, C07",
     trusted=["SHA-256 treated as injective", "DataSource interface contract (versions immutable, output creates a fresh version) is assumed; _FilesystemDataSource is not proved against it",
              "the StorageBackendBase operations are verified in C07's view with C05's coherence clauses assumed (they are proved by the C05 check)"],
     assumptions=["an override key does not start with 'c/' (otherwise a user-chosen key aliases a content address)"],
     )

prop("C19",
     modules=["nullbackends"],
     functions=[SBB + n for n in ("memoize", "forget_call", "forget_everything", "forget_function", "write_metadata", "is_memoized", "read_result", "get_mementos")]
     + ["storage_null:NullStorageBackend." + n for n in ("get_mementos", "is_memoized", "is_all_memoized", "list_functions", "list_mementos", "read_result", "read_metadata", "memoize")]
     + ["runner_null:NullRunnerBackend.batch_run", "storage:StorageBackend.__init__",
        "storage_filesystem:FilesystemStorageBackend.__init__@config-only", "storage_memory:MemoryStorageBackend.__init__@config-only"]
     + [MB + n for n in ("memoize", "forget_call", "forget_everything", "write_metadata", "get_mementos", "is_memoized", "read_result")],
     function_modules=dict({"storage_filesystem:FilesystemStorageBackend.__init__@config-only": ["config"], "storage_memory:MemoryStorageBackend.__init__@config-only": ["config"]},
                           **{MB + n: ["membackend"] for n in ("memoize", "forget_call", "forget_everything", "write_metadata", "get_mementos", "is_memoized", "read_result")}),
     design_ref="DESIGN.md section 6, C19",
     # these two always raise (a null store has nothing to read, a null runner refuses to run): their postconditions are unreachable by design
     never_return=["storage_null:NullStorageBackend.read_result", "runner_null:NullRunnerBackend.batch_run"],
     assume_props=["C05"],
     trusted=["clauses tagged C05 (cache/store coherence) are assumed here and proved by the C05 check over the same functions",
              "the ghost write counters of the abstract MetadataSource / DataSource count every mutating interface method (interface contract)"],
     )

MRL = "runner_local:memento_run_local"
BR = "runner_local:LocalRunnerBackend.batch_run"
RUNNER_ASSUME = ["user function bodies are deterministic functions of the call key (outcome, value, exception) and never return MementoException instances",
                 "function bodies only add to the store (no forget inside a body); any successful read of a memento for key k returns the memoized value of k",
                 "an I/O error during memoize leaves the store view unchanged (C08 examines this)",
                 "InvocationContext / RecursiveContext / LocalContext are modelled as immutable records; update_recursive is a functional field update (assumed model of the __dict__-based classes)",
                 "the thread-local call stack is a per-thread singleton; no other thread interleaves (C09 is not applicable)"]

EXC = "exception:MementoException."
prop("C02", modules=["runner"], functions=[MRL, "runner:process_existing_memento", EXC + "__init__", EXC + "from_exception", EXC + "to_exception",
                                            # the entry point: one reference dispatched, the single slot returned or -- an exception object -- raised
                                            "base:MementoFunctionBase.call",
                                            # the classification of a result ("the recorded result type always matches the value")
                                            "metadata:ResultType.from_object"], split={MRL: 12},
     function_modules={EXC + "__init__": ["excname"], EXC + "from_exception": ["excname"], EXC + "to_exception": ["excname"], "metadata:ResultType.from_object": ["resulttype"]},
     design_ref="DESIGN.md section 6, C02",
     trusted=["interface contract of the abstract StorageBackend (dictionary view) -- refined by StorageBackendBase under C05",
              "inside memento_run_local, MementoException.from_exception / to_exception and ResultType.from_object are used through assumed summaries; each is proved against its own contract in this check",
              "ResultType.from_object: bool < int and datetime < date are the only subclass relations among the classes of the table (values of user classes inheriting from two of them are outside the contract)"],
     assumptions=RUNNER_ASSUME)
prop("C10", modules=["runner"], functions=["runner_local:propagate_dependencies", MRL, BR, "resource_function:ResourceFunction.__call__"], split={MRL: 12, BR: 14},
     design_ref="DESIGN.md section 6, C10",
     trusted=["interface contract of the abstract StorageBackend", "induction over the call tree (DESIGN 6, C10 lemma)"],
     assumptions=RUNNER_ASSUME)
prop("C15", modules=["runner"], functions=[BR, "base:MementoFunctionBase.call_batch", "base:MementoFunctionBase.call"], split={BR: 14},
     design_ref="DESIGN.md section 6, C15",
     trusted=["memento_run_local's contract (proved under C02)", "interface contract of the abstract StorageBackend",
              "call_batch: memento_run_batch by its contract (proved under C16); RunnerBackend.batch_run of an arbitrary runner returns one slot per reference (its documented interface; proved for the local runner); "
              "Environment.get().get_cluster(name) and self.fn_reference() are functions of their receiver within the call; map_over_range is not under contract"],
     assumptions=RUNNER_ASSUME)
prop("C16", modules=["runner"], functions=["runner_local:memento_run_batch", "base:MementoFunctionBase.with_context_args", "base:MementoFunctionBase.with_prevent_further_calls",
                                            # "context args enter the hash as _memento_context_args" (contract of C04)
                                            "reference:FunctionReferenceWithArguments._compute_effective_kwargs_with_context_args"],
     function_modules={"reference:FunctionReferenceWithArguments._compute_effective_kwargs_with_context_args": ["args"]},
     design_ref="DESIGN.md section 6, C16",
     trusted=["RunnerBackend.batch_run of an arbitrary runner is opaque: the proof is about what is dispatched to it",
              "FunctionReferenceWithArguments.__init__ keeps its four arguments (C04 examines it)",
              "InvocationContext.update_recursive / RecursiveContext.update (copies made through __dict__) replace exactly the named field (assumed model); clone_with is abstract in MementoFunctionBase: the proof is about the context the clone is given"],
     assumptions=RUNNER_ASSUME)

FS = "storage_filesystem:FilesystemStorageBackend."
prop("C18", modules=["config"],
     functions=[FS + "__init__", FS + "__init__@config-only", "storage_memory:MemoryStorageBackend.__init__@config-only", FS + "to_dict", "storage_base:StorageBackendBase.__init__", "storage:StorageBackend.__init__",
                "storage_memory:MemoryStorageBackend.__init__", "storage_memory:MemoryStorageBackend.to_dict", "storage_null:NullStorageBackend.to_dict",
                "storage:StorageBackend.create", "runner:RunnerBackend.create", "runner_local:LocalRunnerBackend.to_dict", "runner_null:NullRunnerBackend.to_dict",
                "configuration:FunctionCluster.__init__", "configuration:FunctionCluster.to_dict", "configuration:ConfigurationRepository.to_dict",
                "configuration:ConfigurationRepository.__init__@no-configured-clusters", "configuration:Environment.__init__",
                "configuration:Environment.to_dict", "configuration:Environment.get_cluster", "configuration:Environment.append_repo", "configuration:Environment.prepend_repo"],
     split={FS + "__init__": 10, "configuration:FunctionCluster.__init__": 12, "configuration:ConfigurationRepository.__init__@no-configured-clusters": 8},
     design_ref="DESIGN.md section 6, C18",
     trusted=["pathlib operations are uninterpreted functions of the path strings", "YAML/JSON/Jinja loaders produce the dict they describe (not examined)"],
     assumptions=["configuration values have the documented types (path strings, non-negative number for memory_cache_mb)"])

MFN = "memento:MementoFunction."
TRAVERSAL_FUNCS = ["code_hash:HashRule._visit_dependency", "code_hash:MementoFunctionHashRule.collect_transitive_dependencies", "code_hash:NonMementoFunctionHashRule.collect_transitive_dependencies"]
TRY_RESOLVE_FUNCS = ["code_hash:%s.try_resolve" % k for k in ("MementoFunctionHashRule", "NonMementoFunctionHashRule", "GlobalVariableHashRule")]
prop("C13", modules=["version"],
     split={MFN + "__init__": 14},
     functions=[MFN + "__init__", MFN + "_update_dependencies", MFN + "_update_fn_reference", MFN + "version", MFN + "fn_reference", MFN + "hash_rules", MFN + "increment_global_fn_generation",
                "code_hash:UndefinedSymbolHashRule.did_change", "code_hash:MementoFunctionHashRule.did_change", "code_hash:GlobalVariableHashRule.did_change",
                "code_hash:NonMementoFunctionHashRule.did_change",
                # "defining a previously undefined symbol": the rule left for a name that does not resolve watches exactly where the name will appear
                "code_hash:HashRule._visit_dependency"],
     function_modules={"code_hash:HashRule._visit_dependency": ["traversal"]},
     design_ref="DESIGN.md section 6, C13",
     trusted=["coherence lemma over the per-call contracts under environment assumption E (DESIGN section 6, C13): every in-process event that changes the from-scratch version is a registration or makes a collected rule report change",
              "_recompute_version returns the from-scratch version (assumed contract)"],
     assumptions=["within one call the answers of rule.did_change() and the from-scratch version do not change"])

prop("C14", modules=["deps"],
     functions=[MFN + "_validate_dependency", MFN + "call", MFN + "call_batch",
                "dependency_graph:DependencyGraph.transitive_memento_fn_dependencies", "dependency_graph:DependencyGraph.direct_memento_fn_dependencies",
                # the graph is linked by the parts of a rule key: parse_key is the inverse of the key construction proved under C03
                "dependency_graph:DependencyGraph.parse_key",
                # the scope of the collection ("plain helper functions of the same package"): the package_scope handed to collect_transitive_dependencies
                MFN + "_recompute_version",
                # the traversal itself: which names are visited from which function, what is recorded for a name that does or does not resolve
                ] + TRAVERSAL_FUNCS
     # the strategies that decide what a reference denotes (memento function behind any wrapper chain, plain function, tracked variable)
     + TRY_RESOLVE_FUNCS,
     function_modules=dict({MFN + "_recompute_version": ["codehash"]}, **{f: ["traversal"] for f in TRAVERSAL_FUNCS + TRY_RESOLVE_FUNCS}),
     split={"code_hash:MementoFunctionHashRule.collect_transitive_dependencies": 5},
     design_ref="DESIGN.md section 6, C14",
     trusted=["_extract_fn_ref_args (recursive walk over argument structures) is summarised by in_fnref_names (assumed)",
              "the AST visitor list_dotted_names and the strategy loop resolve_symbol / try_resolve are summarised by uninterpreted functions (dotted_names, resolvable, is_rule_for): exactness of the collected rule list w.r.t. the program TEXT is claimed only from these summaries downwards (which names are visited from which function, what a resolved / unresolved name leaves in the result set)"],
     assumptions=["x.fn_reference().qualified_name is a function of the memento function object within one call (qname_of)"])

prop("C12", modules=["names"],
     functions=["reference:FunctionReference.parse_qualified_name", "reference:FunctionReference.parse_qualified_name@ambiguous-cluster",
                "reference:FunctionReference.__init__", "reference:FunctionReference.from_qualified_name", "external:UnboundExternalMementoFunction.__init__",
                # "metadata source ignores mementos whose functions cannot be found": one slot per request, nothing escapes (contract of C08)
                "storage_base:DataSourceMetadataSource.get_mementos",
                # reading a stored function-valued argument: the decoded reference always has a function object behind it (found or external stub), so the argument decoder
                # never gives up with FunctionNotFoundError
                "serialization:MementoCodec.decode_fn_reference", "serialization:MementoCodec.decode_arg"],
     function_modules={"storage_base:DataSourceMetadataSource.get_mementos": ["crash"], "serialization:MementoCodec.decode_fn_reference": ["wire"],
                       "serialization:MementoCodec.decode_arg": ["wire"]},
     split={"reference:FunctionReference.__init__": 12, "serialization:MementoCodec.decode_fn_reference": 10, "serialization:MementoCodec.decode_arg": 8},
     design_ref="DESIGN.md section 6, C12",
     trusted=["backtracking semantics of re.match on the supported regex subset: the returned match is the most preferred feasible choice vector (pyvc/regex.py)"],
     assumptions=[])

MC = "serialization:MementoCodec."
WIRE_KINDS = ["datetime", "memento", "invocation_metadata", "fn_reference_with_args", "fn_reference_with_arg_hash", "resource_handle", "fn_reference", "recursive_context",
              "versioned_data_source_key", "arg"]
prop("C11", modules=["wire"],
     functions=[MC + d + "_" + k for k in WIRE_KINDS for d in ("encode", "decode")],
     split={MC + "decode_fn_reference_with_args": 14, MC + "encode_fn_reference_with_args": 10, MC + "decode_fn_reference": 10, MC + "decode_arg": 8, MC + "encode_arg": 6},
     design_ref="DESIGN.md section 6, C11",
     trusted=["round trip decode(encode(x)) ~ x from the two directions WIRE_X(encode(x), x) and WIRE_X(s, decode(s)): structural induction over the fixed document shapes (stated lemma)",
              "dateutil.parser.parse / isoformat, base64, numpy array construction, json.dumps/loads: assumed (relations dtwire, b64wire, items preserved)",
              "FunctionReference.from_qualified_name returns a reference with the given name and partial arguments (C12 proves naming and exception freedom)"],
     assumptions=["the argument hash recomputed from decoded arguments equals the original one: follows from C04 (hash is a function of the normalised argument values) and is not re-proved here",
                  "field names are pinned from the current code (the repository has no separate written wire-format specification)",
                  "values compared with == against strings are plain data (no class with an exotic __eq__)"])

FWAC = "reference:FunctionReferenceWithArguments."
prop("C04", modules=["args"],
     functions=[FWAC + "_compute_effective_kwargs", FWAC + "_compute_effective_kwargs_with_context_args", FWAC + "__init__",
                "reference:ArgumentHasher.compute_hash", "reference:ArgumentHasher._encode", "reference:ArgumentHasher._normalized_json@scalar"],
     design_ref="DESIGN.md section 6, C04",
     trusted=["json.dumps on primitives, isoformat, SHA-256, hashlib accumulation: uninterpreted / assumed model",
              "_normalized_json is summarised by nj(obj): its independence of dict insertion order (sorted keys) is NOT proved",
              "normalize = _decode o _encode: _decode and idempotence are not under contract"],
     assumptions=["parameter names are distinct strings (inspect.signature)", "class facts of the argument domain (datetime is a date; list / dict / dates / memento functions / primitives pairwise disjoint)"])

PPS = "storage_base:DefaultCodec.PicklePartitionStrategy.store"
prop("C17", modules=["partition"],
     functions=[PPS + "@inmemory", PPS + "@ondisk", PPS + "@readback", PPS + "@with-parent",
                "partition:InMemoryPartition.get", "partition:InMemoryPartition.list_keys", "storage_filesystem:OnDiskPartition.get", "storage_filesystem:OnDiskPartition.list_keys",
                "storage_base:DefaultCodec.PicklePartition.get", "storage_base:DefaultCodec.PicklePartition.list_keys"],
     design_ref="DESIGN.md section 6, C17",
     trusted=["the serialised index carries exactly the entries of the dict (JSON round trip of the index assumed)", "Codec.store / BlobStrategy.store: C07"],
     assumptions=["a partition's own interface (list_keys(False) = its own keys each once, get(k) = value_of(p, k)) is summarised; each class's get / list_keys is proved separately"])

prop("C01", modules=["codehash"],
     functions=["code_hash:fn_code_hash.<locals>.hash_if_code_object", "code_hash:fn_code_hash",
                # in-process staleness: the cached version is used only when no collected rule reports a change (contracts of C13)
                MFN + "_update_dependencies", "code_hash:UndefinedSymbolHashRule.did_change", "code_hash:MementoFunctionHashRule.did_change",
                "code_hash:GlobalVariableHashRule.did_change", "code_hash:NonMementoFunctionHashRule.did_change",
                # the version is part of the storage key: the qualified name carries '#version' (contracts of C12)
                "reference:FunctionReference.__init__",
                # the rules are collected transitively (contracts of C14), ordered and digested (C03), and calls outside the closure are refused (C14)
                MFN + "_recompute_version", MFN + "_validate_dependency"] + TRAVERSAL_FUNCS + TRY_RESOLVE_FUNCS,
     function_modules=dict({MFN + "_update_dependencies": ["version"], "reference:FunctionReference.__init__": ["names"], MFN + "_validate_dependency": ["deps"],
                            **{f: ["traversal"] for f in TRAVERSAL_FUNCS + TRY_RESOLVE_FUNCS}},
                           **{"code_hash:%s.did_change" % k: ["version"] for k in ("UndefinedSymbolHashRule", "MementoFunctionHashRule", "GlobalVariableHashRule", "NonMementoFunctionHashRule")}),
     split={"reference:FunctionReference.__init__": 12, "code_hash:MementoFunctionHashRule.collect_transitive_dependencies": 5},
     design_ref="DESIGN.md section 6, C01",
     trusted=["json.dumps / base64 / utf-8 / SHA-256 injective (assumed)"],
     assumptions=[])

prop("C03", modules=["codehash"],
     functions=["code_hash:_stable_repr", "code_hash:fn_code_hash.<locals>.hash_if_code_object", "memento:MementoFunction._recompute_version"]
     + ["code_hash:%s.__init__" % k for k in ("NonMementoFunctionHashRule", "MementoFunctionHashRule", "GlobalVariableHashRule", "UndefinedSymbolHashRule")]
     + ["code_hash:HashRule.__eq__", "code_hash:HashRule.__lt__", "code_hash:HashRule.__hash__"]
     # "regardless of definition or import order": a name that does not resolve yet leaves a rule that watches the place where it will appear
     + TRAVERSAL_FUNCS,
     function_modules={f: ["traversal"] for f in TRAVERSAL_FUNCS},
     split={"code_hash:MementoFunctionHashRule.collect_transitive_dependencies": 5},
     extra_checks=["contracts.extra:env_salt"],
     design_ref="DESIGN.md section 6, C03",
     trusted=["value table of seed-independent repr(); 'sorting removes iteration order' (bag lemma); seed independence is checked on value terms by substituting a second seed"],
     assumptions=[])

FDS = "storage_filesystem:_FilesystemDataSource."
prop("C08", modules=["crash"],
     functions=[FDS + n for n in ("_write_non_versioned_link", "output", "_read_non_versioned_link", "exists_nonversioned", "get_versioned_key",
                                  "exists_versioned", "input_nonversioned", "input_versioned", "_delete_non_versioned_link", "delete_nonversioned_key", "_get_path_versioned@metadata-key")]
     + ["storage_base:DataSourceMetadataSource.get_mementos", "storage_base:Codec.BlobStrategy.store", SBB + "memoize",
        # "IOError during memoize is logged and swallowed", "IOError during read falls back to recomputation": the runner's side (contracts of C02)
        MRL, "runner:process_existing_memento"],
     assume_props=["C05", "C06", "C07", "C19", "C02", "C10", "C15"], custom_replay="crash_replay", extra_checks=["contracts.extra:crash_faults"],
     function_modules={"storage_base:Codec.BlobStrategy.store": ["codec"], SBB + "memoize": ["storage"], MRL: ["runner"], "runner:process_existing_memento": ["runner"]},
     split={MRL: 12},
     design_ref="DESIGN.md section 6, C08",
     trusted=["OS model: the assumed contracts of open / write / close / os.replace / os.makedirs / uuid4 (contracts/crash.py header)",
              "path algebra: link, version-file and temporary paths are disjoint families with the inverses pathlib gives (memento's key space)",
              "refinement step (stated, not machine-checked): the ghost file system maps to the abstract DataSource view latest/blobs of C07 "
              "(latest[k] = version named by the link of k, blobs = complete version files); the contracts proved for _FilesystemDataSource are the "
              "image of the interface contracts assumed by BlobStrategy.store and StorageBackendBase.memoize, whose own intermediate states are checked here",
              "clauses tagged C05 / C06 / C07 / C19 of the storage contracts are assumed here and proved by those checks over the same functions",
              "memento_run_local / process_existing_memento are verified here in C08's view (exception freedom: an OSError of memoize is swallowed, an OSError of read_result leads to recomputation) with the clauses tagged C02 / C10 / C15 assumed"],
     assumptions=["one process writes (C09 is not applicable); a crash state is the state after some primitive's normal or exceptional outcome",
                  "after a failed write the memory cache may hold the entry the store lacks (it carries the value); cache/store coherence after an OSError is not claimed"])

# thorough tier: every property also runs the native demonstrations of its repaired defects as a bounded regression guard (contracts/extra.py)
for _pid, _cfg in PROPS.items():
    _cfg["extra_checks"] = list(_cfg.get("extra_checks", [])) + ["contracts.extra:fixed_demos"]
