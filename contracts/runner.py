"""Contracts for the local runner (properties C02, C10, C15, C16): memento_run_local, process_existing_memento,
propagate_dependencies, LocalRunnerBackend.batch_run, memento_run_batch.

Abstract store view (ghost fields of the abstract StorageBackend):
    mementos : "qn/hash" -> Memento,  values : "qn/hash" -> stored object
Ghost counters: body_calls (user-function bodies invoked), memoize_seen (memoize calls made by the code under
verification), io_errors (read failures reported by the store).

The user function body is modelled as a *deterministic* opaque callable (memoization is only meaningful for such
functions): body_raises(k), bodyval(k), bodyexc(k), exc_remote(k), exc_nonmemo(k) are uninterpreted functions of the call
key k = qualified-name '/' argument-hash.  Running it may change the store at will (nested memento calls) as long as
the store stays consistent with these functions, and may extend the current frame's recorded invocations/dependencies.
"""
import z3

from pyvc.ty import *  # noqa
from pyvc.engine import PyRaise, Unsupported


def load(R):
    RC = R.record("RecursiveContext", correlation_id=TObj(), retry_on_remote_call=TBool, prevent_further_calls=TBool, context_args=TObj())
    LC = R.record("LocalContext", ignore_result=TBool, force_local=TBool, monitor_progress=TBool)
    IC = R.record("InvocationContext", recursive=RC, local=LC)
    EMR = R.record("ExistingMementoResult", result=TObj(), valid_result=TBool)

    for a, t in dict(invocation_metadata=TObj("nn:InvocationMetadata"), fn_reference_with_args=TObj("nn:FunctionReferenceWithArguments"),
                     fn_reference=TObj("nn:FunctionReference"), qualified_name=TStr, arg_hash=TStr, memento_fn=TObj("nn:MementoFunction"),
                     correlation_id=TObj(), runner=TObj(), time=TObj(), args=TObj(), kwargs=TObj(), context_args=TObj(), effective_kwargs=TObj(),
                     key_override=TOpt(TStr), result=TObj(), hex=TStr, name=TStr).items():
        R.attr(a, t)
    R.attr("function_dependencies", TSet(TObj()), mutable=True)
    R.attr("invocations", TList(TObj()), mutable=True)
    R.attr("resources", TList(TObj()), mutable=True)
    R.attr("runtime", TObj(), mutable=True)
    R.attr("result_type", TObj(), mutable=True)
    R.attr("content_key", TObj(), mutable=True)
    R.opaque_class("Memento", "metadata")
    R.opaque_class("InvocationMetadata", "metadata")
    R.opaque_class("FunctionReferenceWithArgHash", "reference")
    R.opaque_class("FunctionReferenceWithArguments", "reference")
    R.opaque_class("KeyOverrideResult", "result")
    R.enum("ResultType", ["exception", "null", "boolean", "string", "binary", "number", "date", "timestamp", "list_result", "dictionary",
                          "array_boolean", "array_int8", "array_int16", "array_int32", "array_int64", "array_float32", "array_float64",
                          "index", "series", "data_frame", "partition", "memento_function"])

    R.entity("StorageA", ("storage", "StorageBackend"), dict(mementos=TDict(TStr, TObj("Memento")), values=TDict(TStr, TObj())))
    R.entity("StackFrame", ("call_stack", "StackFrame"), dict(memento=TObj("nn:Memento"), recursive_context=RC))
    R.entity("CallStack", ("call_stack", "CallStack"), dict(_frames=TStack(TEnt("StackFrame"))))
    R.entity("LocalRunnerBackend", ("runner_local", "LocalRunnerBackend"), dict())

    for n, (a, r) in dict(body_raises=([TStr], TBool), exc_remote=([TStr], TBool), exc_nonmemo=([TStr], TBool), bodyval=([TStr], TObj()), bodyexc=([TStr], TObj()),
                          mexc_of=([TObj()], TObj()), toexc=([TObj()], TObj()), lock_of=([TStr], TObj()), RT=([TObj()], TObj()), exc_equiv=([TObj(), TObj()], TBool)).items():
        R.uf(n, a, r)
    ufs = {k: v[0] for k, v in R.ufs.items()}

    R.spec("KEYF", ["f"], "f.fn_reference.qualified_name + '/' + f.arg_hash")
    R.spec("KEYM", ["m"], "KEYF(m.invocation_metadata.fn_reference_with_args)")
    R.spec("UNWRAP", ["v"], "v.result if isinstance(v, KeyOverrideResult) else v")
    # what the store holds for a call whose body outcome is memoizable
    R.spec("MEMOVAL", ["k"], "mexc_of(bodyexc(k)) if body_raises(k) else UNWRAP(bodyval(k))")
    R.spec("MEMOIZABLE", ["k"], "not (body_raises(k) and (exc_remote(k) or exc_nonmemo(k)))")
    # store consistent with the (deterministic) functions: only memoizable outcomes are recorded, with the value the body produces
    R.spec("CONS", ["s"], "forall(str, lambda k: same(s.values[k], MEMOVAL(k)) and implies(k in s.mementos, s.mementos[k] is not None and KEYM(s.mementos[k]) == k and MEMOIZABLE(k)))")
    # C02: "the recorded result type always matches the value read back" -- as far as the runner relies on it: the memento of a call says 'exception' iff
    # the stored outcome is a memoized exception
    R.spec("TYPE_MATCHES", ["s", "m"], "same(m.invocation_metadata.result_type, ResultType.exception) == isinstance(s.values[KEYM(m)], MementoException)")
    R.spec("STORE_UNCHANGED", ["s"], "forall(str, lambda k: (k in s.mementos) == old(k in s.mementos) and same(s.mementos[k], old(s.mementos[k])) and same(s.values[k], old(s.values[k])))")
    # what a caller of the memento function gets back for key k (an exception object stands for "raises it")
    R.spec("OUTCOME_OK", ["r", "k"], "exc_equiv(r, bodyexc(k)) if body_raises(k) else same(r, UNWRAP(bodyval(k)))")

    def path_init(ex):
        me, te, eq = ufs["mexc_of"], ufs["toexc"], ufs["exc_equiv"]
        isme = ex.class_pred("MementoException")
        iskor = ex.class_pred("KeyOverrideResult")
        ex.add_universal([TObj()], lambda x: z3.And(isme(me(x)), z3.Not(iskor(me(x))), me(x) != PyNone, eq(te(me(x)), x), eq(x, x), te(me(x)) != PyNone), "memoized-exception-roundtrip (assumed here; proved for names under C02/exception)")
        # assumption: function results are not MementoException instances, and a KeyOverrideResult does not wrap one
        attr_result = z3.Function("attr_result", ObjSort, ObjSort)
        bv = ufs["bodyval"]
        ex.add_universal([TStr], lambda k: z3.And(z3.Not(isme(bv(k))), z3.Not(isme(attr_result(bv(k)))), ufs["bodyexc"](k) != PyNone), "results-are-not-memoized-exceptions")
        # framework bookkeeping objects are never function results / exceptions (class-level disjointness)
        book = [ex.class_pred(c) for c in ("Memento", "InvocationMetadata", "FunctionReferenceWithArgHash", "LocalRunnerBackend")]
        isb = lambda x: z3.Or(*[p(x) for p in book])
        ex.add_universal([TObj()], lambda x: z3.And(z3.Not(isb(me(x))), z3.Not(isb(te(x))), z3.Implies(isme(x), z3.Not(isb(x))), z3.Implies(iskor(x), z3.Not(isb(x))), z3.Not(isb(attr_result(x)))), "bookkeeping-classes-disjoint-from-values")
        be = ufs["bodyexc"]
        ex.add_universal([TStr], lambda k: z3.And(z3.Not(isb(bv(k))), z3.Not(isb(be(k))), z3.Not(isb(attr_result(bv(k)))),
                                                  z3.Not(isb(me(be(k)))), isme(me(be(k))), z3.Not(iskor(me(be(k)))), me(be(k)) != PyNone,
                                                  eq(te(me(be(k))), be(k)), eq(be(k), be(k)), z3.Not(isb(te(me(be(k)))))), "results-are-not-bookkeeping-objects")
        ex.st.ghost.setdefault("held", VTuple([]))
        ex.singletons["CallStack"] = ex.sym(TEnt("CallStack"), "callstack", record_input=True)
    R.path_init.append(path_init)
    R.plain_truthy.update({"Memento", "FunctionReferenceWithArguments", "FunctionReference", "InvocationMetadata"})
    R.assume("user function bodies are deterministic functions of the call key (outcome, value, exception); results are never MementoException instances")
    R.assume("the thread-local call stack is a per-thread singleton (CallStack.get modelled as such)")

    # ---------------------------------------------------------------- assumed models (hooks)
    def update_recursive(ex, recv, args, kwargs):
        key = z3.simplify(args[0].t)
        if not z3.is_string_value(key):
            raise Unsupported("update_recursive with a non-constant key")
        key = key.as_string()
        rec = ex.get_attr(recv, "recursive")
        if key not in dict(RC.fields):
            raise PyRaise(VExc("ValueError", []))
        vals = [ex.to_term(args[1], t) if f == key else RC.get(rec.t, f) for f, t in RC.fields]
        return VRec(IC.mk(RC.mk(*vals), IC.get(recv.t, "local")), IC)
    R.record_methods[("InvocationContext", "update_recursive")] = update_recursive

    def callstack_get(ex, args, kwargs):
        if "CallStack" not in ex.singletons:
            ex.singletons["CallStack"] = ex.sym(TEnt("CallStack"), "callstack", record_input=True)
        return ex.singletons["CallStack"]
    R.func_hooks["call_stack:CallStack.get"] = callstack_get

    def mutex_for(ex, args, kwargs):
        f = args[0]
        k = ex.call_spec("KEYF", [f])
        return VObj(ufs["lock_of"](k.t), "Lock")
    R.func_hooks["runner_local:_mutex_for_invocation"] = mutex_for

    def lock_enter(ex, cm):
        held = ex.st.ghost["held"]
        ex.st.ghost["held"] = VTuple(held.items + [cm])
        return cm

    def lock_exit(ex, cm, h):
        held = ex.st.ghost["held"]
        ex.st.ghost["held"] = VTuple(held.items[:-1])
    R.with_hooks["Lock"] = (lock_enter, lock_exit)

    def local_runner(ex, args, kwargs):
        o = ex.fresh_obj("LocalRunnerBackend")
        ex.assume(ex.class_pred("LocalRunnerBackend")(o))
        return VObj(o, "LocalRunnerBackend")
    R.constructors["LocalRunnerBackend"] = local_runner
    R.obj_method("to_dict", types={"self": TObj()}, returns=TObj(), ensures=[])
    R.external("datetime.datetime.now", returns=TObj("nn:datetime"), ensures=[])
    R.external("uuid.uuid4", returns=TObj("nn:UUID"), ensures=[])

    def filter_call(ex, recv, args, kwargs):
        """The user function body (see module docstring)."""
        env = ex.st.env
        f = env.get("fn_reference_with_args")
        if f is None or "storage_backend" not in env or "stack_frame" not in env:
            raise Unsupported("_filter_call outside memento_run_local")
        k = ex.call_spec("KEYF", [f]).t
        ex.st.ghost["body_calls"] = VInt(ex.st.ghost["body_calls"].t + 1)
        held = ex.st.ghost["held"].items
        ex.oblige("body-runs-only-while-the-call-lock-is-held", z3.Or(*[h.t == ufs["lock_of"](k) for h in held]) if held else z3.BoolVal(False), kind="post",
                  info={"clause": "the function body runs only while the per-call lock is held", "tags": ["C02"]})
        ex.oblige("body-receives-the-effective-kwargs", kwargs.get("**").t == z3.Function("attr_effective_kwargs", ObjSort, ObjSort)(f.t) if isinstance(kwargs.get("**"), VObj) else z3.BoolVal(False), kind="post",
                  info={"clause": "the body is called with exactly fn_reference_with_args.effective_kwargs", "tags": ["C02", "C04", "C16"]})
        # effects: the store may change arbitrarily (nested calls) but stays consistent
        s = env["storage_backend"]
        for fld in ("mementos", "values"):
            loc = ("f", s.oid, fld)
            ex.st.conts[loc] = ex.havoc_cont(ex.st.conts[loc], "body_" + fld)
        ex.assume_clause("CONS(storage_backend)")
        # the current frame's record grows (nested calls propagate into it); nothing else is touched
        m = ex.get_attr(env["stack_frame"], "memento")
        im = ex.get_attr(m, "invocation_metadata")
        deps = ex.cont(VCont(("h", "function_dependencies", m.t)))
        nm = ex.fresh("body_deps", deps.mem.sort()); nc = ex.fresh("body_depcount", z3.IntSort())
        old_mem = deps.mem
        ex.add_universal([TObj()], lambda r: z3.Implies(old_mem[r], nm[r]), "deps-grow-only")
        ex.assume(nc >= deps.count)
        ex.set_cont(VCont(("h", "function_dependencies", m.t)), deps.replace(mem=nm, count=nc))
        inv = ex.cont(VCont(("h", "invocations", im.t)))
        na = ex.fresh("body_inv", inv.arr.sort()); nn = ex.fresh("body_invlen", z3.IntSort())
        old_arr, old_n = inv.arr, inv.n
        ex.add_universal([TInt], lambda i: z3.Implies(z3.And(0 <= i, i < old_n), na[i] == old_arr[i]), "invocations-extend")
        ex.assume(nn >= inv.n)
        ex.set_cont(VCont(("h", "invocations", im.t)), inv.replace(arr=na, n=nn))
        # outcome
        if ex.branch(ufs["body_raises"](k)):
            tag = ufs["bodyexc"](k)
            if ex.branch(ufs["exc_remote"](k)):
                raise PyRaise(VExc("RemoteCallException", [], exact=True, tag=tag))
            if ex.branch(ufs["exc_nonmemo"](k)):
                raise PyRaise(VExc("NonMemoizedException", [], exact=False, tag=tag, excl=["RemoteCallException"]))
            raise PyRaise(VExc("Exception", [], exact=False, tag=tag, excl=["RemoteCallException", "NonMemoizedException"]))
        return VObj(ufs["bodyval"](k))
    R.obj_method_hooks["_filter_call"] = filter_call

    # ---------------------------------------------------------------- assumed interface contracts
    S = TEnt("StorageA")
    M = TObj("nn:Memento")
    FWA = TObj("nn:FunctionReferenceWithArguments")
    FWH = TObj("nn:FunctionReferenceWithArgHash")
    FR = TObj("nn:FunctionReference")
    R.contract("storage:StorageBackend.get_mementos", assumed=True, types={"self": S, "fns": TList(FWH)}, returns=TList(TObj("Memento")),
               ensures=["len(result) == len(fns)", "forall(int, lambda j: implies(0 <= j and j < len(fns), same(result[j], self.mementos[KEYF(fns[j])] if KEYF(fns[j]) in self.mementos else None)))",
                        # interface fact: a stored memento records the type of the stored outcome (memoize is given result_type = from_object(value): proved for memento_run_local)
                        "forall(int, lambda j: implies(0 <= j and j < len(fns) and KEYF(fns[j]) in self.mementos, TYPE_MATCHES(self, self.mementos[KEYF(fns[j])])))"])
    R.contract("storage:StorageBackend.read_result", assumed=True, types={"self": S, "memento": M}, returns=TObj(),
               raises={"OSError+": ["ghost('io_errors') == old(ghost('io_errors')) + 1"]},
               ensures=["same(result, self.values[KEYM(memento)])", "ghost('io_errors') == old(ghost('io_errors'))"], modifies=["ghost:io_errors"])
    R.contract("storage:StorageBackend.is_memoized", assumed=True, types={"self": S, "fn_reference": FR, "arg_hash": TStr}, returns=TBool,
               ensures=["result == (fn_reference.qualified_name + '/' + arg_hash in self.mementos)"])
    R.contract("storage:StorageBackend.memoize", assumed=True, types={"self": S, "key_override": TOpt(TStr), "memento": M, "result": TObj()},
               raises={"OSError+": ["ghost('memoize_seen') == old(ghost('memoize_seen')) + 1", "STORE_UNCHANGED(self)",
                                    "same(ghost('last_memoized_type'), memento.invocation_metadata.result_type)", "ghost('last_key_override') == key_override"]},
               ensures=["ghost('memoize_seen') == old(ghost('memoize_seen')) + 1", "KEYM(memento) in self.mementos", "same(self.mementos[KEYM(memento)], memento)", "same(self.values[KEYM(memento)], result)",
                        "same(ghost('last_memoized_type'), memento.invocation_metadata.result_type)", "ghost('last_key_override') == key_override",
                        "forall(str, lambda k: implies(k != KEYM(memento), (k in self.mementos) == old(k in self.mementos) and same(self.mementos[k], old(self.mementos[k])) and same(self.values[k], old(self.values[k]))))"],
               modifies=["self.mementos", "self.values", "ghost:memoize_seen", "ghost:last_memoized_type", "ghost:last_key_override"],
               notes="an I/O error is assumed to leave the store view unchanged (C08 examines what a failed write really leaves)")
    R.contract("exception:MementoException.from_exception", assumed=True, types={"e": TObj()}, returns=TObj("nn:MementoException"), ensures=["same(result, mexc_of(e))"])
    R.obj_method("to_exception", types={"self": TObj()}, returns=TObj(), ensures=["same(result, toexc(self))"])
    R.contract("metadata:ResultType.from_object", assumed=True, types={"cls": TObj(), "obj": TObj()}, returns=TObj("nn:enum:ResultType"),
               ensures=["same(result, RT(obj))", "same(result, ResultType.exception) == isinstance(obj, MementoException)"],
               notes="classification proved separately (C02: ResultType.from_object priority chain)")

    GH = {"body_calls": TInt, "memoize_seen": TInt, "io_errors": TInt, "last_memoized_type": TObj(), "last_key_override": TOpt(TStr)}

    # ---------------------------------------------------------------- C10: propagate_dependencies
    R.contract("runner_local:propagate_dependencies", prop="C10", types={"caller_memento": M, "result_memento": M},
               ensures=["len(caller_memento.invocation_metadata.invocations) == old(len(caller_memento.invocation_metadata.invocations)) + 1",
                        "same(caller_memento.invocation_metadata.invocations[old(len(caller_memento.invocation_metadata.invocations))], result_memento.invocation_metadata.fn_reference_with_args)",
                        "forall(int, lambda j: implies(0 <= j and j < old(len(caller_memento.invocation_metadata.invocations)), same(caller_memento.invocation_metadata.invocations[j], old(caller_memento.invocation_metadata.invocations[j]))))",
                        "forall(obj, lambda r: (r in caller_memento.function_dependencies) == (old(r in caller_memento.function_dependencies) or same(r, result_memento.invocation_metadata.fn_reference_with_args.fn_reference) or old(r in result_memento.function_dependencies)))",
                        # frame: no other memento's record changes
                        "forall(obj, obj, lambda m, r: implies(not same(m, caller_memento), (r in m.function_dependencies) == old(r in m.function_dependencies)))",
                        "forall(obj, lambda im: implies(not same(im, caller_memento.invocation_metadata), len(im.invocations) == old(len(im.invocations))))"],
               modifies=["heap:function_dependencies", "heap:invocations"])

    # ---------------------------------------------------------------- C10: ResourceFunction.__call__
    # From the property ("the metadata recorded for a call lists ... the external resource handles the body obtained"): the handle the wrapped function
    # returns is appended to the resources of the CALLING frame's memento (and to nothing else); whatever the wrapped function returns is returned.
    R.attr("resources", TList(TObj()), mutable=True)
    R.uf("resource_handle", [TObj(), TObj(), TObj()], TObj())
    R.entity("ResourceFunction", ("resource_function", "ResourceFunction"), dict(fn=TObj("nn:callable")))
    RES = "CallStack.get()._frames[-1].memento.invocation_metadata.resources"

    def call_wrapped_resource_fn(ex, fv, args, kwargs):
        """self.fn(*args, **kwargs): user code -- returns a handle that is a function of (fn, args, kwargs) within the call, or raises anything; it does
        not touch the framework's records (assumed: resource functions do not call memento functions)."""
        a = [x.obj if isinstance(x, VStar) else x for x in args]
        if len(a) != 1 or set(kwargs) != {"**"}:
            raise Unsupported("opaque call of this shape: %r %r %r" % (fv, args, kwargs))
        if ex.choose([z3.BoolVal(True), z3.BoolVal(True)]) == 1:
            raise PyRaise(VExc("Exception", [], exact=False))
        return VObj(R.ufs["resource_handle"][0](fv.t, ex.box(a[0]), ex.box(kwargs["**"])))
    R.opaque_call_hook = call_wrapped_resource_fn
    R.assume("a wrapped resource function returns a handle or raises; it does not touch the call stack or the recorded invocations / resources")
    R.contract("resource_function:ResourceFunction.__call__", prop="C10", types={"self": TEnt("ResourceFunction"), "args": TObj("nn:tuple"), "kwargs": TObj("nn:dict")}, returns=TObj(),
               ensures=["same(result, resource_handle(self.fn, args, kwargs))",
                        "stack_unchanged(CallStack.get()._frames)",
                        "implies(old(truthy(CallStack.get()._frames)), len(%s) == old(len(%s)) + 1 and same(%s[old(len(%s))], result))" % (RES, RES, RES, RES),
                        "implies(old(truthy(CallStack.get()._frames)), forall(int, lambda j: implies(0 <= j and j < old(len(%s)), same(%s[j], old(%s[j])))))" % (RES, RES, RES),
                        # no other record changes
                        "forall(obj, lambda im: implies(not old(truthy(CallStack.get()._frames)) or not same(im, CallStack.get()._frames[-1].memento.invocation_metadata), "
                        "len(im.resources) == old(len(im.resources))))"],
               raises={"Exception+": ["forall(obj, lambda im: len(im.resources) == old(len(im.resources)))"]},
               modifies=["heap:resources"])

    # ---------------------------------------------------------------- C16: the modifiers with_context_args / with_prevent_further_calls
    # From the property: context arguments attached to a call "replace them entirely" (the clone's recursive context carries exactly the given dict, every
    # other field of the context is the original's, the original function object keeps its context); "a call made with further calls prevented": the clone's
    # recursive context carries the flag.
    if "context" not in R.attrs:
        R.attr("context", IC)
    R.uf("clone_result", [TObj(), TInt], TObj())

    def clone_with(ex, recv, args, kwargs):
        """self.clone_with(context=...): abstract in MementoFunctionBase -- the clone is recorded (ghost 'cw_context': the context it is given; 'cw_calls')."""
        if args or set(kwargs) != {"context"}:
            raise Unsupported("clone_with of this shape")
        g = ex.st.ghost
        g["cw_calls"] = VInt(g["cw_calls"].t + 1)
        g["cw_context"] = kwargs["context"]
        return VObj(R.ufs["clone_result"][0](recv.t, g["cw_calls"].t))
    R.obj_method_hooks["clone_with"] = clone_with
    CWG = {"cw_calls": TInt, "cw_context": IC}
    B_ = "base:MementoFunctionBase."
    SAME_BUT = lambda field: " and ".join(["ghost('cw_context').recursive.%s == self.context.recursive.%s" % (f, f) for f, _ in RC.fields if f not in (field, "context_args", "correlation_id")]
                                          + ["same(ghost('cw_context').recursive.%s, self.context.recursive.%s)" % (f, f) for f in ("context_args", "correlation_id") if f != field]
                                          + ["ghost('cw_context').local == self.context.local"])
    R.contract(B_ + "with_context_args", prop="C16", types={"self": TObj("nn:MementoFunctionBase"), "context_args": TObj()}, returns=TObj(), ghost_params=CWG,
               ensures=["ghost('cw_calls') == old(ghost('cw_calls')) + 1", "same(result, clone_result(self, ghost('cw_calls')))",
                        "same(ghost('cw_context').recursive.context_args, context_args)", SAME_BUT("context_args"),
                        "self.context == old(self.context)"],
               # the function's own assert (an obligation of the function given this precondition): the dict is a fresh one, not the current one modified in place
               requires=["not same(context_args, self.context.recursive.context_args)"],
               modifies=["ghost:cw_calls", "ghost:cw_context"])
    R.contract(B_ + "with_prevent_further_calls", prop="C16", types={"self": TObj("nn:MementoFunctionBase"), "prevent_calls": TBool}, returns=TObj(), ghost_params=CWG,
               ensures=["ghost('cw_calls') == old(ghost('cw_calls')) + 1", "same(result, clone_result(self, ghost('cw_calls')))",
                        "ghost('cw_context').recursive.prevent_further_calls == prevent_calls", SAME_BUT("prevent_further_calls"),
                        "self.context == old(self.context)"],
               modifies=["ghost:cw_calls", "ghost:cw_context"])

    # ---------------------------------------------------------------- C02: process_existing_memento
    R.contract("runner:process_existing_memento", prop="C02", types={"storage_backend": S, "existing_memento": M, "ignore_result": TBool}, returns=EMR,
               ghost_params=GH,
               ensures=["STORE_UNCHANGED(storage_backend)", "ghost('body_calls') == old(ghost('body_calls'))", "ghost('memoize_seen') == old(ghost('memoize_seen'))",
                        # from the property: an exception is replayed the same way under every call modifier; ignore_result only drops VALUES
                        # (the memento's recorded type tells an exception from a value without reading it: TYPE_MATCHES is what get_mementos hands out)
                        "implies(ignore_result and old(TYPE_MATCHES(storage_backend, existing_memento)) and not isinstance(storage_backend.values[KEYM(existing_memento)], MementoException), "
                        "result.valid_result and result.result is None and ghost('io_errors') == old(ghost('io_errors')))",
                        "implies(result.valid_result and isinstance(storage_backend.values[KEYM(existing_memento)], MementoException) and (not ignore_result or old(TYPE_MATCHES(storage_backend, existing_memento))), "
                        "ghost('io_errors') == old(ghost('io_errors')) and same(result.result, toexc(storage_backend.values[KEYM(existing_memento)])))",
                        "implies(not ignore_result and result.valid_result and not isinstance(storage_backend.values[KEYM(existing_memento)], MementoException), "
                        "ghost('io_errors') == old(ghost('io_errors')) and same(result.result, storage_backend.values[KEYM(existing_memento)]))",
                        "implies(not result.valid_result, result.result is None and ghost('io_errors') == old(ghost('io_errors')) + 1)"],
               modifies=["ghost:io_errors"])

    # ---------------------------------------------------------------- C02 / C10: memento_run_local
    K = "KEYF(fn_reference_with_args)"
    FR_ = "CallStack.get()._frames"
    CALLER = "CallStack.get()._frames[-1].memento"
    PROP = ["stack_unchanged(%s)" % FR_,
            # exactly one propagation into the calling frame, whichever way the call was served
            "[C10] implies(old(truthy(%s)), len(%s.invocation_metadata.invocations) == old(len(%s.invocation_metadata.invocations)) + 1 "
            "and KEYF(%s.invocation_metadata.invocations[old(len(%s.invocation_metadata.invocations))]) == %s)" % (FR_, CALLER, CALLER, CALLER, CALLER, K),
            "[C10] implies(old(truthy(%s)), forall(int, lambda j: implies(0 <= j and j < old(len(%s.invocation_metadata.invocations)), same(%s.invocation_metadata.invocations[j], old(%s.invocation_metadata.invocations[j])))))" % (FR_, CALLER, CALLER, CALLER),
            "[C10] implies(old(truthy(%s)), forall(obj, lambda r: implies(old(r in %s.function_dependencies), r in %s.function_dependencies)))" % (FR_, CALLER, CALLER),
            # the callee itself becomes a dependency of the caller (the reference object recorded is the one of the memento that was propagated)
            "[C10] implies(old(truthy(%s)), %s.invocation_metadata.invocations[old(len(%s.invocation_metadata.invocations))].fn_reference in %s.function_dependencies)" % (FR_, CALLER, CALLER, CALLER),
            # the dependencies recorded in a stored memento flow to the caller exactly as freshly computed ones do
            "[C10] implies(old(truthy(%s)) and old(%s in storage_backend.mementos) and ghost('io_errors') == old(ghost('io_errors')), "
            "forall(obj, lambda r: implies(old(r in storage_backend.mementos[%s].function_dependencies), r in %s.function_dependencies)))" % (FR_, K, K, CALLER)]
    R.contract("runner_local:memento_run_local", prop="C02",
               types={"context": IC, "fn_reference_with_args": FWA, "storage_backend": S, "log_runner_backend": TObj("nn:RunnerBackend")}, returns=TObj(),
               ghost_params=GH,
               requires=["truthy(context.recursive.correlation_id)", "CONS(storage_backend)"],
               ensures=["CONS(storage_backend)",
                        "[C02,C15] ghost('body_calls') <= old(ghost('body_calls')) + 1",
                        "[C02,C15] implies(old(%s in storage_backend.mementos) and ghost('io_errors') == old(ghost('io_errors')), ghost('body_calls') == old(ghost('body_calls')) "
                        "and ghost('memoize_seen') == old(ghost('memoize_seen')) and STORE_UNCHANGED(storage_backend))" % K,
                        "[C02] implies(not old(%s in storage_backend.mementos), ghost('body_calls') == old(ghost('body_calls')) + 1)" % K,
                        "[C02] ghost('memoize_seen') <= old(ghost('memoize_seen')) + 1",
                        "[C02,C15] implies(not context.local.ignore_result, OUTCOME_OK(ret, %s))" % K,
                        "[C02] implies(context.local.ignore_result and not body_raises(%s), ret is None)" % K,
                        "[C02,C15] implies(context.local.ignore_result and body_raises(%s), exc_equiv(ret, bodyexc(%s)))" % (K, K),
                        # what this call memoizes: the recorded result type describes the stored value; an override key is the body's
                        "[C02] implies(ghost('memoize_seen') == old(ghost('memoize_seen')) + 1, same(ghost('last_memoized_type'), RT(MEMOVAL(%s))) "
                        "and ghost('last_key_override') == (bodyval(%s).key_override if (not body_raises(%s) and isinstance(bodyval(%s), KeyOverrideResult)) else None))" % (K, K, K, K),
                        "[C02] implies(ghost('io_errors') == old(ghost('io_errors')) and ghost('memoize_seen') == old(ghost('memoize_seen')), %s in storage_backend.mementos)" % K,
                        ] + PROP,
               raises={"RemoteCallException": ["exc_equiv(exc, bodyexc(%s))" % K, "[C02,C15] body_raises(%s) and exc_remote(%s)" % (K, K), "[C02] ghost('memoize_seen') == old(ghost('memoize_seen'))", "[C02,C15] ghost('body_calls') <= old(ghost('body_calls')) + 1", "CONS(storage_backend)"] + PROP,
                       "NonMemoizedException+": ["exc_equiv(exc, bodyexc(%s))" % K, "[C02,C15] body_raises(%s) and exc_nonmemo(%s)" % (K, K), "[C02] ghost('memoize_seen') == old(ghost('memoize_seen'))", "[C02,C15] ghost('body_calls') <= old(ghost('body_calls')) + 1", "CONS(storage_backend)"] + PROP},
               modifies=["storage_backend.mementos", "storage_backend.values", "ghost:body_calls", "ghost:memoize_seen", "ghost:io_errors", "ghost:last_memoized_type", "ghost:last_key_override",
                         "heap:function_dependencies", "heap:invocations", "heap:runtime", "heap:result_type", "heap:content_key"])

    # ---------------------------------------------------------------- C15 / C10: LocalRunnerBackend.batch_run
    def fwa_ctor(ex, args, kwargs):
        """FunctionReferenceWithArguments(fn_reference, args, kwargs, context_args): assumed to keep its four arguments (C04 examines __init__)."""
        names = ["fn_reference", "args", "kwargs", "context_args"]
        vals = dict(zip(names, args)); vals.update(kwargs)
        o = ex.fresh_obj("FunctionReferenceWithArguments")
        ex.assume(ex.class_pred("FunctionReferenceWithArguments")(o))
        for nme in names:
            f = z3.Function("attr_" + nme, ObjSort, ObjSort)
            ex.assume(f(o) == ex.box(vals.get(nme, VNone)))
        return VObj(o, "FunctionReferenceWithArguments")
    R.constructors["FunctionReferenceWithArguments"] = fwa_ctor

    LR = TEnt("LocalRunnerBackend")
    FNS = "fn_reference_with_args"
    R.contract("runner_local:LocalRunnerBackend.batch_run", prop="C15",
               types={"self": LR, "context": IC, "storage_backend": S, FNS: TList(FWA), "log_runner_backend": TObj("nn:RunnerBackend"), "caller_memento": TObj("Memento")},
               returns=TList(TObj()), ghost_params=GH,
               requires=["CONS(storage_backend)"],
               ensures=["CONS(storage_backend)",
                        "[C15] len(result) == len(%s)" % FNS,
                        # position by position what the individual call returns (an exception object in its slot)
                        "[C15] implies(not context.local.ignore_result, forall(int, lambda j: implies(0 <= j and j < len(%s), OUTCOME_OK(result[j], KEYF(%s[j])))))" % (FNS, FNS),
                        "[C15] ghost('body_calls') <= old(ghost('body_calls')) + len(%s)" % FNS,
                        "stack_unchanged(%s)" % FR_,
                        # one propagation per element, in element order, whichever way each element was served
                        "[C10] implies(old(truthy(%s)), len(%s.invocation_metadata.invocations) == old(len(%s.invocation_metadata.invocations)) + len(%s) "
                        "and forall(int, lambda j: implies(0 <= j and j < len(%s), KEYF(%s.invocation_metadata.invocations[old(len(%s.invocation_metadata.invocations)) + j]) == KEYF(%s[j]))))" % (FR_, CALLER, CALLER, FNS, FNS, CALLER, CALLER, FNS),
                        "[C10] implies(old(truthy(%s)), forall(int, lambda j: implies(0 <= j and j < old(len(%s.invocation_metadata.invocations)), same(%s.invocation_metadata.invocations[j], old(%s.invocation_metadata.invocations[j])))))" % (FR_, CALLER, CALLER, CALLER)],
               loops={1: ["len(comp_result) == loop_i", "forall(int, lambda j: implies(0 <= j and j < loop_i, KEYF(comp_result[j]) == KEYF(%s[j])))" % FNS],
                      2: ["CONS(storage_backend)", "len(results) == loop_i", "truthy(context.recursive.correlation_id)",
                          "[C15] implies(not context.local.ignore_result, forall(int, lambda j: implies(0 <= j and j < loop_i, OUTCOME_OK(results[j], KEYF(%s[j])))))" % FNS,
                          "[C15] ghost('body_calls') <= old(ghost('body_calls')) + loop_i",
                          "stack_unchanged(%s)" % FR_,
                          "[C10] implies(old(truthy(%s)), len(%s.invocation_metadata.invocations) == old(len(%s.invocation_metadata.invocations)) + loop_i "
                          "and forall(int, lambda j: implies(0 <= j and j < loop_i, KEYF(%s.invocation_metadata.invocations[old(len(%s.invocation_metadata.invocations)) + j]) == KEYF(%s[j]))))" % (FR_, CALLER, CALLER, CALLER, CALLER, FNS),
                          "[C10] implies(old(truthy(%s)), forall(int, lambda j: implies(0 <= j and j < old(len(%s.invocation_metadata.invocations)), same(%s.invocation_metadata.invocations[j], old(%s.invocation_metadata.invocations[j])))))" % (FR_, CALLER, CALLER, CALLER),
                          ]},
               labels={"comp_types": {1: TObj("nn:FunctionReferenceWithArgHash")}, "local_types": {"results": TList(TObj())}},
               modifies=["storage_backend.mementos", "storage_backend.values", "ghost:body_calls", "ghost:memoize_seen", "ghost:io_errors", "ghost:last_memoized_type", "ghost:last_key_override",
                         "heap:function_dependencies", "heap:invocations", "heap:runtime", "heap:result_type", "heap:content_key"])

    # ---------------------------------------------------------------- C16: memento_run_batch
    def runner_batch_run(ex, recv, args, kwargs):
        """RunnerBackend.batch_run of an arbitrary runner: recorded in ghost state (what was dispatched), returns an arbitrary list."""
        g = ex.st.ghost
        g["runner_calls"] = VInt(g["runner_calls"].t + 1)
        g["rc_runner"] = recv
        g["rc_context"] = kwargs["context"]
        g["rc_fns"] = kwargs["fn_reference_with_args"]
        g["rc_caller"] = VObj(ex.box(kwargs["caller_memento"]))
        g["rc_storage"] = kwargs["storage_backend"]
        res = ex.sym(TList(TObj()), "runner_result!%d" % ex._bump())
        # interface contract of RunnerBackend.batch_run ("a list, the same list as fn_reference_with_args"): one slot per reference (proved for the local runner, C15)
        ex.assume(ex.cont(res).n == ex.cont(kwargs["fn_reference_with_args"]).n)
        g["rc_result"] = res
        return res
    R.obj_method_hooks["batch_run"] = runner_batch_run

    TOPF = "CallStack.get()._frames[-1]"
    EFF_CTX = "(context.recursive.context_args if (context.recursive.context_args is not None or not old(truthy(%s))) else %s.recursive_context.context_args)" % (FR_, TOPF)
    R.contract("runner_local:memento_run_batch", prop="C16",
               types={"context": IC, FNS: TList(FWA), "storage_backend": S, "runner_backend": TObj("nn:RunnerBackend"), "log_runner_backend": TObj("nn:RunnerBackend")},
               returns=TList(TObj()),
               ghost_params={"runner_calls": TInt, "rc_runner": TObj(), "rc_context": IC, "rc_fns": TList(FWA), "rc_caller": TObj(), "rc_storage": S, "rc_result": TList(TObj())},
               ensures=[# a call under `prevent further calls` never reaches a runner (see raises); otherwise exactly one dispatch
                        "not (old(truthy(%s)) and %s.recursive_context.prevent_further_calls)" % (FR_, TOPF),
                        "ghost('runner_calls') == old(ghost('runner_calls')) + 1",
                        "implies(context.local.force_local, isinstance(ghost('rc_runner'), LocalRunnerBackend))",
                        "implies(not context.local.force_local, same(ghost('rc_runner'), runner_backend))",
                        # effective context arguments: the call's own when attached (even if empty), else the calling frame's
                        "same(ghost('rc_context').recursive.context_args, %s)" % EFF_CTX,
                        "ghost('rc_context').local == context.local",
                        "implies(old(truthy(%s)), same(ghost('rc_context').recursive.correlation_id, %s.memento.correlation_id) and same(ghost('rc_caller'), %s.memento))" % (FR_, TOPF, TOPF),
                        "implies(not old(truthy(%s)), ghost('rc_context') == context and ghost('rc_caller') is None)" % FR_,
                        # the references handed to the runner carry exactly those context arguments (so the argument hash includes them) and the same function/arguments
                        "len(ghost('rc_fns')) == len(%s)" % FNS,
                        "forall(int, lambda j: implies(0 <= j and j < len(%s), same(ghost('rc_fns')[j].fn_reference, %s[j].fn_reference) and same(ghost('rc_fns')[j].args, %s[j].args) "
                        "and same(ghost('rc_fns')[j].kwargs, %s[j].kwargs) and implies(not (context.recursive.context_args is not None or not old(truthy(%s))), same(ghost('rc_fns')[j].context_args, %s))))" % (FNS, FNS, FNS, FNS, FR_, EFF_CTX),
                        "implies(context.recursive.context_args is not None or not old(truthy(%s)), forall(int, lambda j: implies(0 <= j and j < len(%s), same(ghost('rc_fns')[j], %s[j]))))" % (FR_, FNS, FNS),
                        # what the runner returns is returned, slot by slot
                        "len(result) == len(ghost('rc_result')) and len(result) == len(%s)" % FNS,
                        "forall(int, lambda j: implies(0 <= j and j < len(result), same(result[j], ghost('rc_result')[j])))",
                        "stack_unchanged(%s)" % FR_],
               raises={"RuntimeError": ["old(truthy(%s)) and %s.recursive_context.prevent_further_calls" % (FR_, TOPF), "ghost('runner_calls') == old(ghost('runner_calls'))"]},
               loops={1: ["len(comp_result) == loop_i",
                          "forall(int, lambda j: implies(0 <= j and j < loop_i, same(comp_result[j].fn_reference, %s[j].fn_reference) and same(comp_result[j].args, %s[j].args) "
                          "and same(comp_result[j].kwargs, %s[j].kwargs) and same(comp_result[j].context_args, context.recursive.context_args)))" % (FNS, FNS, FNS)]},
               labels={"comp_types": {1: TObj("nn:FunctionReferenceWithArguments")}},
               modifies=["ghost:runner_calls", "ghost:rc_runner", "ghost:rc_context", "ghost:rc_fns", "ghost:rc_caller", "ghost:rc_storage", "ghost:rc_result"])

    # ---------------------------------------------------------------- C15: MementoFunctionBase.call_batch / map_over_range
    # From the property ("position by position what individual calls return ... Failures appear in their slots, or the first one is raised when so
    # requested"): call_batch hands memento_run_batch one reference per element of kwargs_list, IN ORDER, each for this function (its current reference), with
    # no positional arguments, the element's keyword arguments and this function's context arguments; it returns the runner's list unchanged, or raises the
    # FIRST exception in it when asked to.  map_over_range evaluates one call per value, in order, and maps each value to the result of ITS call.
    R.uf("fnref_of", [TObj()], TObj())
    R.uf("the_env", [], TObj())
    R.uf("cluster_of", [TObj(), TObj()], TObj())
    R.attr("cluster_name", TObj())
    R.attr("storage", TObj("StorageA"))
    R.attr("runner", TObj("nn:RunnerBackend"))
    R.obj_method_hooks["fn_reference"] = lambda ex, recv, args, kwargs: VObj(R.ufs["fnref_of"][0](recv.t))

    def env_get(ex, args, kwargs):
        o = R.ufs["the_env"][0]()
        ex.assume(o != PyNone)
        return VObj(o, "Environment")
    R.func_hooks["configuration:Environment.get"] = env_get
    R.obj_method("get_cluster", types={"self": TObj(), "arg0": TObj()}, returns=TObj(), ensures=["same(result, cluster_of(self, arg0))"])
    CLUSTER = "cluster_of(the_env(), fnref_of(self).cluster_name)"
    R.obj_method_hooks["keys"] = lambda ex, recv, args, kwargs: ex.obj_as_list(recv)      # the keys of an opaque mapping, in its own order
    CB_G = {"runner_calls": TInt, "rc_runner": TObj(), "rc_context": IC, "rc_fns": TList(FWA), "rc_caller": TObj(), "rc_storage": S, "rc_result": TList(TObj())}
    EXC_AT = "first_index(ghost('rc_result'), lambda x: isinstance(x, Exception))"
    R.contract(B_ + "call_batch", prop="C15", types={"self": TObj("nn:MementoFunctionBase"), "kwargs_list": TList(TObj("nn:dict")), "raise_first_exception": TBool},
               returns=TList(TObj()), ghost_params=CB_G,
               requires=["fnref_of(self) is not None"],
               ensures=["ghost('runner_calls') == old(ghost('runner_calls')) + 1",
                        # what reaches the runner: one reference per element, in order, for this function, no positional arguments, the element's keyword arguments
                        "len(ghost('rc_fns')) == len(kwargs_list)",
                        "forall(int, lambda j: implies(0 <= j and j < len(kwargs_list), same(ghost('rc_fns')[j].fn_reference, fnref_of(self)) and len(ghost('rc_fns')[j].args) == 0 "
                        "and same(ghost('rc_fns')[j].kwargs, kwargs_list[j])))",
                        "ghost('rc_context').local == self.context.local",
                        "implies(not self.context.local.force_local, same(ghost('rc_runner'), %s.runner))" % CLUSTER,
                        # the runner's list, slot by slot
                        "len(result) == len(kwargs_list)", "forall(int, lambda j: implies(0 <= j and j < len(result), same(result[j], ghost('rc_result')[j])))",
                        "implies(raise_first_exception, forall(int, lambda j: implies(0 <= j and j < len(result), not isinstance(result[j], Exception))))"],
               raises={"TypeError": ["ghost('runner_calls') == old(ghost('runner_calls'))"],
                       "ValueError": ["%s is None" % CLUSTER, "ghost('runner_calls') == old(ghost('runner_calls'))"],
                       "RuntimeError": ["ghost('runner_calls') == old(ghost('runner_calls'))"],
                       "Exception+": ["raise_first_exception", "ghost('runner_calls') == old(ghost('runner_calls')) + 1", "%s < len(ghost('rc_result'))" % EXC_AT,
                                      "same(exc, ghost('rc_result')[%s])" % EXC_AT]},
               loops={1: ["True"], 2: ["len(comp_result) == loop_i",
                          "forall(int, lambda j: implies(0 <= j and j < loop_i, same(comp_result[j].fn_reference, fnref_of(self)) and len(comp_result[j].args) == 0 "
                          "and same(comp_result[j].kwargs, kwargs_list[j]) and same(comp_result[j].context_args, self.context.recursive.context_args)))"],
                      3: ["forall(int, lambda j: implies(0 <= j and j < loop_i, not isinstance(result[j], Exception)))", "ghost('runner_calls') == old(ghost('runner_calls')) + 1",
                          "len(result) == len(kwargs_list)", "forall(int, lambda j: implies(0 <= j and j < len(result), same(result[j], ghost('rc_result')[j])))"]},
               labels={"comp_types": {2: TObj("nn:FunctionReferenceWithArguments")}},
               modifies=["ghost:runner_calls", "ghost:rc_runner", "ghost:rc_context", "ghost:rc_fns", "ghost:rc_caller", "ghost:rc_storage", "ghost:rc_result"])

    # ---------------------------------------------------------------- C02 / C15: MementoFunctionBase.call (a batch of size one)
    # From the property (C02: "same outcome" as the un-memoized function): exactly one reference reaches the runner -- this function, the call's own positional
    # and keyword arguments, this function's context arguments -- and the single slot of the runner's list is the outcome: returned when it is a value, RAISED
    # when it is an exception object.
    R.contract(B_ + "call", prop="C02", types={"self": TObj("nn:MementoFunctionBase"), "args": TObj("nn:tuple"), "kwargs": TObj("nn:dict")}, returns=TObj(), ghost_params=CB_G,
               requires=["fnref_of(self) is not None"],
               ensures=["ghost('runner_calls') == old(ghost('runner_calls')) + 1",
                        "len(ghost('rc_fns')) == 1 and same(ghost('rc_fns')[0].fn_reference, fnref_of(self)) and same(ghost('rc_fns')[0].args, args) and same(ghost('rc_fns')[0].kwargs, kwargs)",
                        "ghost('rc_context').local == self.context.local",
                        "implies(not self.context.local.force_local, same(ghost('rc_runner'), %s.runner))" % CLUSTER,
                        "same(result, ghost('rc_result')[0])", "not isinstance(result, Exception)"],
               raises={"ValueError": ["%s is None" % CLUSTER, "ghost('runner_calls') == old(ghost('runner_calls'))"],
                       "RuntimeError": ["ghost('runner_calls') == old(ghost('runner_calls'))"],
                       "Exception+": ["ghost('runner_calls') == old(ghost('runner_calls')) + 1", "same(exc, ghost('rc_result')[0])", "isinstance(ghost('rc_result')[0], Exception)"]},
               modifies=["ghost:runner_calls", "ghost:rc_runner", "ghost:rc_context", "ghost:rc_fns", "ghost:rc_caller", "ghost:rc_storage", "ghost:rc_result"])
