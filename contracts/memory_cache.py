"""Contracts for storage_base.MemoryCache (properties C06, and the cache half of C05).

View: cache : str -> _CacheEntry (record), lru_deque : duplicate-free recency order (stamp = recency),
memory_usage, memory_cache_bytes (budget), refs : weak map str -> object.
"""
from pyvc.ty import *  # noqa


def load(R):
    CacheEntry = R.record("_CacheEntry", obj_size=TInt, memento=TObj("Memento"), value=TObj(), has_value=TBool)
    R.entity("MemoryCache", ("storage_base", "MemoryCache"), dict(
        memory_cache_bytes=TReal,
        memory_usage=TInt,
        lru_deque=TOrdSet(TStr),
        cache=TDict(TStr, CacheEntry, measures=("obj_size",)),
        refs=TDict(TStr, TObj(), weak=True),
    ))
    # immutable attribute chains of opaque objects (class facts check that nothing assigns them after __init__)
    for a, t in dict(invocation_metadata=TObj("nn:InvocationMetadata"), fn_reference_with_args=TObj("nn:FunctionReferenceWithArguments"),
                     fn_reference=TObj("nn:FunctionReference"), qualified_name=TStr, arg_hash=TStr).items():
        R.attr(a, t)

    # ---- representation invariant (C06): I1 usage = sum of resident sizes, I2 deque = key set (no duplicates:
    # built into the OrdSet model, proved at every append), I3 0 <= usage <= budget, I4 sizes non-negative
    R.spec("INV", ["c"], "c.memory_usage == dsum(c.cache, 'obj_size') and dnonneg(c.cache, 'obj_size') "
                         "and 0 <= c.memory_usage and c.memory_usage <= c.memory_cache_bytes "
                         "and forall(str, lambda k: (k in c.cache) == (k in c.lru_deque))")
    R.spec("KEY", ["m"], "m.invocation_metadata.fn_reference_with_args.fn_reference.qualified_name + '/' + m.invocation_metadata.fn_reference_with_args.arg_hash")
    R.spec("FKEY", ["f", "h"], "f.qualified_name + '/' + h")
    # every resident entry fits the budget (derived, stated because the property statement says it)
    R.spec("RESIDENT_FITS", ["c"], "forall(str, lambda k: implies(k in c.cache, 0 <= c.cache[k].obj_size and c.cache[k].obj_size <= c.memory_cache_bytes))")
    # everything about key k is as it was at entry
    R.spec("SAME_AT", ["c", "k"], "(k in c.cache) == old(k in c.cache) and implies(k in c.cache, c.cache[k] == old(c.cache[k]) and stamp(c.lru_deque, k) == old(stamp(c.lru_deque, k)))")
    R.spec("UNCHANGED", ["c"], "c.memory_usage == old(c.memory_usage) and c.memory_cache_bytes == old(c.memory_cache_bytes) and len(c.cache) == old(len(c.cache)) and forall(str, lambda k: SAME_AT(c, k))")
    # k is the most recently used resident
    R.spec("MOST_RECENT", ["c", "key"], "forall(str, lambda k: implies(k in c.cache and k != key, stamp(c.lru_deque, k) < stamp(c.lru_deque, key)))")

    MC = TEnt("MemoryCache")
    M = TObj("nn:Memento")
    SB = "storage_base:MemoryCache."

    R.contract(SB + "_estimate_object_size", assumed=True, types={"obj": TObj()}, returns=TInt, ensures=["result >= 0"],
               notes="assumed: the size estimate is a non-negative int (sys.getsizeof / pandas memory_usage)")
    R.spec("isinst_frame", ["x"], "isinstance(x, pd.DataFrame) or isinstance(x, pd.Series)")
    # abstract value of an object: copies and serialisation round trips preserve it
    R.uf("absval", [TObj()], TObj())
    R.spec("EQV", ["a", "b"], "absval(a) == absval(b)")
    R.obj_method("copy", types={"self": TObj()}, returns=TObj(), ensures=["result is not None", "EQV(result, self)", "isinst_frame(result)"])

    R.contract(SB + "__init__", prop="C06", types={"self": MC, "memory_cache_mb": TReal},
               requires=["memory_cache_mb >= 0"],
               ensures=["INV(self)", "self.memory_usage == 0", "len(self.cache) == 0", "self.memory_cache_bytes == memory_cache_mb * 1024 * 1024"],
               modifies=["self.*"])

    R.contract(SB + "_mark_used", level="H", prop="C06", types={"self": MC, "cache_key": TStr},
               ensures=["cache_key in self.lru_deque",
                        "len(self.lru_deque) == old(len(self.lru_deque)) + ite(old(cache_key in self.lru_deque), 0, 1)",
                        "forall(str, lambda k: implies(k != cache_key, (k in self.lru_deque) == old(k in self.lru_deque) and stamp(self.lru_deque, k) == old(stamp(self.lru_deque, k))))",
                        "forall(str, lambda k: implies(k in self.lru_deque and k != cache_key, stamp(self.lru_deque, k) < stamp(self.lru_deque, cache_key)))"],
               modifies=["self.lru_deque"])

    R.contract(SB + "_evict", level="H", prop="C06", types={"self": MC, "cache_key": TStr},
               ensures=["cache_key not in self.cache", "cache_key not in self.lru_deque",
                        "self.memory_usage == old(self.memory_usage) - old(self.cache[cache_key].obj_size if cache_key in self.cache else 0)",
                        "dsum(self.cache, 'obj_size') == old(dsum(self.cache, 'obj_size')) - old(self.cache[cache_key].obj_size if cache_key in self.cache else 0)",
                        "implies(old(dnonneg(self.cache, 'obj_size')), dnonneg(self.cache, 'obj_size'))",
                        "len(self.cache) == old(len(self.cache)) - ite(old(cache_key in self.cache), 1, 0)",
                        "len(self.lru_deque) == old(len(self.lru_deque)) - ite(old(cache_key in self.lru_deque), 1, 0)",
                        "forall(str, lambda k: implies(k != cache_key, (k in self.cache) == old(k in self.cache) and (k in self.lru_deque) == old(k in self.lru_deque) "
                        "and stamp(self.lru_deque, k) == old(stamp(self.lru_deque, k)) and self.cache[k] == old(self.cache[k])))"],
               modifies=["self.cache", "self.lru_deque", "self.memory_usage"])

    R.contract(SB + "put", prop="C06", types={"self": MC, "memento": M, "result": TObj(), "has_result": TBool},
               requires=["INV(self)"],
               ensures=[
                   "INV(self)",
                   "RESIDENT_FITS(self)",
                   "self.memory_cache_bytes == old(self.memory_cache_bytes)",
                   # the new entry, when resident, is exactly what was put and is the most recent
                   "implies(KEY(memento) in self.cache, MOST_RECENT(self, KEY(memento)) or SAME_AT(self, KEY(memento)))",
                   # C05 (cache/store coherence): whatever is resident under the key after a put is what was put -- no stale resident
                   "[C05] implies(KEY(memento) in self.cache, same(self.cache[KEY(memento)].memento, memento) and self.cache[KEY(memento)].has_value == has_result "
                   "and implies(has_result, EQV(self.cache[KEY(memento)].value, result) and implies(not isinst_frame(result), same(self.cache[KEY(memento)].value, result))))",
                   # C05: a weak reference kept under the key refers to the value just put (never to an older one)
                   "[C05] implies(has_result and KEY(memento) in self.refs, EQV(self.refs[KEY(memento)], result))",
                   "[C05] implies(not has_result and result is None, (KEY(memento) in self.refs) == old(KEY(memento) in self.refs) and same(self.refs[KEY(memento)], old(self.refs[KEY(memento)])))",
                   "[C05] forall(str, lambda k: implies(k != KEY(memento), (k in self.refs) == old(k in self.refs) and same(self.refs[k], old(self.refs[k]))))",
                   # other keys: survivors are untouched (content and recency)
                   "forall(str, lambda k: implies(k != KEY(memento) and k in self.cache, old(k in self.cache) and self.cache[k] == old(self.cache[k]) and stamp(self.lru_deque, k) == old(stamp(self.lru_deque, k))))",
                   # LRU: whatever was dropped is less recent than whatever was kept
                   "forall(str, str, lambda e, k: implies(e != KEY(memento) and k != KEY(memento) and old(e in self.cache) and e not in self.cache and k in self.cache, old(stamp(self.lru_deque, e)) < old(stamp(self.lru_deque, k))))",
                   # nothing is dropped unless room was needed
                   "forall(str, lambda e: implies(e != KEY(memento) and old(e in self.cache) and e not in self.cache, "
                   "KEY(memento) in self.cache and old(self.memory_usage) - old(self.cache[KEY(memento)].obj_size if KEY(memento) in self.cache else 0) + self.cache[KEY(memento)].obj_size > self.memory_cache_bytes))",
               ],
               loops={1: ["INV(self)", "cache_key not in self.cache",
                          "forall(str, lambda k: implies(k in self.cache, k != cache_key and old(k in self.cache) and self.cache[k] == old(self.cache[k]) and stamp(self.lru_deque, k) == old(stamp(self.lru_deque, k))))",
                          "forall(str, str, lambda e, k: implies(e != cache_key and k != cache_key and old(e in self.cache) and e not in self.cache and k in self.cache, old(stamp(self.lru_deque, e)) < old(stamp(self.lru_deque, k))))",
                          "forall(str, lambda e: implies(e != cache_key and old(e in self.cache) and e not in self.cache, "
                          "old(self.memory_usage) - old(self.cache[cache_key].obj_size if cache_key in self.cache else 0) + obj_size > self.memory_cache_bytes))",
                          "self.memory_usage <= old(self.memory_usage) - old(self.cache[cache_key].obj_size if cache_key in self.cache else 0)",
                          ]},
               modifies=["self.cache", "self.lru_deque", "self.memory_usage", "self.refs"])

    FWH = TObj("nn:FunctionReferenceWithArgHash")
    FR = TObj("nn:FunctionReference")
    # content of the cache is untouched (membership, entries); recency may change
    R.spec("CONTENT_SAME", ["c"], "c.memory_usage == old(c.memory_usage) and c.memory_cache_bytes == old(c.memory_cache_bytes) and len(c.cache) == old(len(c.cache)) "
                                  "and forall(str, lambda k: (k in c.cache) == old(k in c.cache) and c.cache[k] == old(c.cache[k]))")
    R.spec("OTHERS_RECENCY_SAME", ["c", "key"], "forall(str, lambda k: implies(k != key and k in c.cache, stamp(c.lru_deque, k) == old(stamp(c.lru_deque, k))))")

    R.contract(SB + "get_mementos", prop="C06", types={"self": MC, "fns": TList(FWH)}, returns=TList(TObj("Memento")),
               requires=["INV(self)"],
               ensures=["INV(self)", "CONTENT_SAME(self)", "len(result) == len(fns)",
                        "forall(int, lambda j: implies(0 <= j and j < len(fns), same(result[j], "
                        "self.cache[FKEY(fns[j].fn_reference, fns[j].arg_hash)].memento if FKEY(fns[j].fn_reference, fns[j].arg_hash) in self.cache else None)))",
                        # from the property ("least recently written or READ"): serving a memento from the cache is a use -- the last key that was hit is the most recent
                        # entry afterwards (every hit is refreshed in turn; the clause names the last one), and nothing moves when nothing was hit
                        "implies(len(fns) > 0 and FKEY(fns[len(fns) - 1].fn_reference, fns[len(fns) - 1].arg_hash) in self.cache, "
                        "MOST_RECENT(self, FKEY(fns[len(fns) - 1].fn_reference, fns[len(fns) - 1].arg_hash)))",
                        "implies(forall(int, lambda j: implies(0 <= j and j < len(fns), FKEY(fns[j].fn_reference, fns[j].arg_hash) not in self.cache)), UNCHANGED(self))"],
               loops={1: ["len(result) == loop_i", "INV(self)", "CONTENT_SAME(self)",
                          "forall(int, lambda j: implies(0 <= j and j < loop_i, same(result[j], "
                          "self.cache[FKEY(fns[j].fn_reference, fns[j].arg_hash)].memento if FKEY(fns[j].fn_reference, fns[j].arg_hash) in self.cache else None)))",
                          "implies(loop_i > 0 and FKEY(fns[loop_i - 1].fn_reference, fns[loop_i - 1].arg_hash) in self.cache, "
                          "MOST_RECENT(self, FKEY(fns[loop_i - 1].fn_reference, fns[loop_i - 1].arg_hash)))",
                          "implies(forall(int, lambda j: implies(0 <= j and j < loop_i, FKEY(fns[j].fn_reference, fns[j].arg_hash) not in self.cache)), UNCHANGED(self))"]},
               labels={"local_types": {"result": TList(TObj("Memento"))}},
               modifies=["self.lru_deque"])

    R.contract(SB + "read_result", prop="C06", types={"self": MC, "memento": M}, returns=TObj(),
               requires=["INV(self)"],
               ensures=["INV(self)", "CONTENT_SAME(self)",
                        # served from the cache entry (no store access is possible: the method has no data source), and marked most recent
                        "implies(old(KEY(memento) in self.cache), old(self.cache[KEY(memento)].has_value) and same(result, old(self.cache[KEY(memento)].value)) "
                        "and MOST_RECENT(self, KEY(memento)) and OTHERS_RECENCY_SAME(self, KEY(memento)))",
                        "implies(not old(KEY(memento) in self.cache), UNCHANGED(self) and old(KEY(memento) in self.refs) and same(result, old(self.refs[KEY(memento)])))"],
               raises={"KeyError": ["INV(self)", "UNCHANGED(self)", "forall(str, lambda k: (k in self.refs) == old(k in self.refs) and same(self.refs[k], old(self.refs[k])))", "not (old(KEY(memento) in self.cache) and old(self.cache[KEY(memento)].has_value))",
                                    "implies(not old(KEY(memento) in self.cache), not old(KEY(memento) in self.refs))"]},
               modifies=["self.lru_deque"])

    R.contract(SB + "is_memoized", prop="C06", types={"self": MC, "fn_reference": FR, "arg_hash": TStr}, returns=TBool,
               requires=["INV(self)"],
               ensures=["INV(self)", "CONTENT_SAME(self)",
                        "implies(old(FKEY(fn_reference, arg_hash) in self.cache), result and MOST_RECENT(self, FKEY(fn_reference, arg_hash)) and OTHERS_RECENCY_SAME(self, FKEY(fn_reference, arg_hash)))",
                        "implies(not old(FKEY(fn_reference, arg_hash) in self.cache), UNCHANGED(self) and result == old(FKEY(fn_reference, arg_hash) in self.refs))"],
               modifies=["self.lru_deque"])

    R.contract(SB + "is_all_memoized", prop="C06", types={"self": MC, "fns": TList(TObj("nn:FunctionReferenceWithArguments"))}, returns=TBool,
               requires=["INV(self)"],
               ensures=["INV(self)", "CONTENT_SAME(self)",
                        "implies(result, forall(int, lambda j: implies(0 <= j and j < len(fns), old(FKEY(fns[j].fn_reference, fns[j].arg_hash) in self.cache) or old(FKEY(fns[j].fn_reference, fns[j].arg_hash) in self.refs))))"],
               loops={1: ["INV(self)", "CONTENT_SAME(self)", "len(comp_result) == loop_i",
                          "forall(int, lambda j: implies(0 <= j and j < loop_i and comp_result[j], old(FKEY(fns[j].fn_reference, fns[j].arg_hash) in self.cache) or old(FKEY(fns[j].fn_reference, fns[j].arg_hash) in self.refs)))"]},
               labels={"comp_types": {1: TBool}},
               modifies=["self.lru_deque"])

    R.contract(SB + "forget_call", prop="C06", types={"self": MC, "fn_with_arg_hash": FWH},
               requires=["INV(self)"],
               ensures=["INV(self)", "self.memory_cache_bytes == old(self.memory_cache_bytes)",
                        "FKEY(fn_with_arg_hash.fn_reference, fn_with_arg_hash.arg_hash) not in self.cache",
                        "FKEY(fn_with_arg_hash.fn_reference, fn_with_arg_hash.arg_hash) not in self.refs",
                        "forall(str, lambda k: implies(k != FKEY(fn_with_arg_hash.fn_reference, fn_with_arg_hash.arg_hash), SAME_AT(self, k) and (k in self.refs) == old(k in self.refs) and same(self.refs[k], old(self.refs[k]))))"],
               modifies=["self.cache", "self.lru_deque", "self.memory_usage", "self.refs"])

    R.contract(SB + "forget_everything", prop="C06", types={"self": MC},
               ensures=["INV(self)", "self.memory_usage == 0", "len(self.cache) == 0", "len(self.refs) == 0", "len(self.lru_deque) == 0",
                        "forall(str, lambda k: k not in self.cache and k not in self.refs)", "self.memory_cache_bytes == old(self.memory_cache_bytes)"],
               requires=["self.memory_cache_bytes >= 0"],
               modifies=["self.cache", "self.lru_deque", "self.memory_usage", "self.refs"])

    R.contract(SB + "forget_function", prop="C06", types={"self": MC, "fn_reference": FR},
               requires=["INV(self)"],
               ensures=["INV(self)", "self.memory_cache_bytes == old(self.memory_cache_bytes)",
                        "forall(str, lambda k: (k in self.cache) == (old(k in self.cache) and not k.startswith(fn_reference.qualified_name + '/')))",
                        "forall(str, lambda k: (k in self.refs) == (old(k in self.refs) and not k.startswith(fn_reference.qualified_name + '/')))",
                        "forall(str, lambda k: implies(k in self.cache, self.cache[k] == old(self.cache[k]) and stamp(self.lru_deque, k) == old(stamp(self.lru_deque, k))))",
                        "forall(str, lambda k: implies(k in self.refs, same(self.refs[k], old(self.refs[k]))))"],
               loops={2: ["forall(str, lambda k: (k in self.refs) == (old(k in self.refs) and not (k in ref_list and pos(ref_list, k) < loop_i)))",
                          "forall(str, lambda k: implies(k in self.refs, same(self.refs[k], old(self.refs[k]))))"],
                      4: ["INV(self)",
                          "forall(str, lambda k: (k in self.cache) == (old(k in self.cache) and not (k in evict_list and pos(evict_list, k) < loop_i)))",
                          "forall(str, lambda k: implies(k in self.cache, self.cache[k] == old(self.cache[k]) and stamp(self.lru_deque, k) == old(stamp(self.lru_deque, k))))"]},
               modifies=["self.cache", "self.lru_deque", "self.memory_usage", "self.refs"])
