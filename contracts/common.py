"""Shared assumed models used by several contract modules."""
from pyvc.ty import *  # noqa
from pyvc.engine import Unsupported, EmptyV


def sequence_passthrough(R, ufs):
    """list(x) / tuple(x) of an opaque or freshly built sequence: a sequence with the same items (aslist / astuple are uninterpreted
    but length- and item-preserving)."""
    import z3

    def passthrough(name):
        def f(ex, args, kwargs):
            if not args:
                return ex.new_box(EmptyV("list")) if name == "aslist" else VTuple([])
            v = args[0]
            if isinstance(v, VTuple) and not v.items:
                return v
            if isinstance(v, VCont):
                c = ex.cont(v)
                if isinstance(c, EmptyV):
                    return v if name == "aslist" else VTuple([])
                v = VObj(ex.box(v))
            if not isinstance(v, VObj):
                raise Unsupported("%s(%r)" % (name, v))
            r = ufs[name](v.t)
            ln = z3.Function("seq_len", ObjSort, z3.IntSort())
            item = z3.Function("seq_item", ObjSort, z3.IntSort(), ObjSort)
            src = ex.obj_as_list(v) if (ex.st.ghost.get("$boxed") or {}).get(z3.simplify(v.t).get_id()) is None else VCont(ex.st.ghost["$boxed"][z3.simplify(v.t).get_id()][1])
            lst = ex.cont(src)
            ex.assume(z3.And(r != PyNone, ln(r) == lst.n))
            arr = lst.arr
            if lst.ty.e is TStr:
                bs = z3.Function("box_str", z3.StringSort(), ObjSort)
                ex.add_universal([TInt], lambda i: item(r, i) == bs(arr[i]), "sequence-copy")
            elif isinstance(lst.ty.e, TObj):
                ex.add_universal([TInt], lambda i: item(r, i) == arr[i], "sequence-copy")
            else:
                raise Unsupported("%s of a list of %r" % (name, lst.ty.e))
            return VObj(r)
        return f
    R.constructors["list"] = passthrough("aslist")
    R.constructors["tuple"] = passthrough("astuple")
