"""Contracts for the content layer (property C07): Codec.BlobStrategy.store / NullStrategy.store / Codec.store, load
against the abstract DataSource.

DataSource view used here:  blobs : VersionedDataSourceKey -> bytes (immutable per version),
                            latest : bare key -> current version (the non-versioned link), writes.
SHA-256 is treated as injective: inv_sha(sha256hex(b)) == b (stated assumption).  The integrity invariant is
    J(ds): every content key "c/<h>" that has a current version holds the unique bytes whose digest is <h>.
"""
import z3

from pyvc.ty import *  # noqa


def load(R):
    VKey = R.record("VersionedDataSourceKey", key=TStr, version=TStr)
    DKey = R.record("DataSourceKey", key=TStr)
    R.record("ContentAddressableHash", key=TStr)
    R.entity("DataSourceC", ("storage_base", "DataSource"), dict(
        blobs=TDict(VKey, TObj("bytes")), latest=TDict(TStr, TStr), writes=TInt))
    R.entity("BlobStrategy", ("storage_base", "Codec.BlobStrategy"), dict())
    R.entity("NullStrategy", ("storage_base", "Codec.NullStrategy"), dict())
    R.uf("sha256hex", [TObj()], TStr)
    R.uf("inv_sha", [TStr], TObj())
    R.uf("bytes_of", [TObj()], TObj())
    R.uf("enc", [TObj()], TObj())
    R.assume("SHA-256 is injective on the stored byte strings (inv_sha(sha256hex(b)) == b)")

    DS = TEnt("DataSourceC")

    def sha256(ex, args, kwargs):
        data = args[0]
        h = ex.fresh("hashobj", ObjSort)
        sha, inv = R.ufs["sha256hex"][0], R.ufs["inv_sha"][0]
        dig = z3.Function("digest_of", ObjSort, z3.StringSort())
        ex.assume(z3.And(h != PyNone, dig(h) == sha(data.t), inv(sha(data.t)) == data.t))
        return VObj(h, "hashobj")
    R.constructors["hashlib.sha256"] = sha256

    def bytesio(ex, args, kwargs):
        b = ex.fresh("bytesio", ObjSort)
        ex.assume(z3.And(b != PyNone, R.ufs["bytes_of"][0](b) == args[0].t))
        return VObj(b, "BytesIO")
    R.constructors["io.BytesIO"] = bytesio
    R.obj_method("hashobj.hexdigest", types={"self": TObj()}, returns=TStr, ensures=["result == digest_of(self)"])
    R.uf("digest_of", [TObj()], TStr)

    R.spec("J", ["ds"], "forall(str, lambda k: implies(k in ds.latest and k.startswith('c/'), VersionedDataSourceKey(k, ds.latest[k]) in ds.blobs "
                        "and same(ds.blobs[VersionedDataSourceKey(k, ds.latest[k])], inv_sha(k[2:]))))")
    R.spec("LINKS_OK", ["ds"], "forall(str, lambda k: implies(k in ds.latest, VersionedDataSourceKey(k, ds.latest[k]) in ds.blobs))")
    R.spec("OLD_BLOBS_KEPT", ["ds"], "forall(VersionedDataSourceKey, lambda v: implies(old(v in ds.blobs), v in ds.blobs and same(ds.blobs[v], old(ds.blobs[v]))))")

    D = "storage_base:DataSource."
    R.contract(D + "exists_nonversioned", assumed=True, types={"self": DS, "key": DKey}, returns=TBool, ensures=["result == (key.key in self.latest)"])
    R.contract(D + "get_versioned_key", assumed=True, types={"self": DS, "key": DKey}, returns=VKey,
               when_raises={"OSError+": "key.key not in self.latest"},
               ensures=["result == VersionedDataSourceKey(key.key, self.latest[key.key])"])
    R.contract(D + "output", assumed=True, types={"self": DS, "key": DKey, "data": TObj("nn:BytesIO")}, returns=VKey,
               raises={"OSError+": ["OLD_BLOBS_KEPT(self)", "forall(str, lambda k: (k in self.latest) == old(k in self.latest) and self.latest[k] == old(self.latest[k]))"]},
               ensures=["self.writes == old(self.writes) + 1", "result.key == key.key", "not old(result in self.blobs)", "result in self.blobs",
                        "same(self.blobs[result], bytes_of(data))", "OLD_BLOBS_KEPT(self)",
                        "key.key in self.latest and self.latest[key.key] == result.version",
                        "forall(str, lambda k: implies(k != key.key, (k in self.latest) == old(k in self.latest) and self.latest[k] == old(self.latest[k])))"],
               modifies=["self.blobs", "self.latest", "self.writes"])
    R.contract(D + "delete_nonversioned_key", assumed=True, types={"self": DS, "key": TOpt(DKey)},
               raises={"OSError+": ["OLD_BLOBS_KEPT(self)", "forall(str, lambda k: (k in self.latest) == old(k in self.latest) and self.latest[k] == old(self.latest[k]))"]},
               ensures=["self.writes == old(self.writes) + 1", "OLD_BLOBS_KEPT(self)",
                        "forall(str, lambda k: implies(k != key.key, (k in self.latest) == old(k in self.latest) and self.latest[k] == old(self.latest[k])))",
                        "key.key not in self.latest"],
               modifies=["self.latest", "self.writes"])

    R.contract(D + "delete_all_versions", assumed=True, types={"self": DS, "key": TOpt(DKey), "recursive": TBool},
               raises={"OSError+": []},
               ensures=["self.writes == old(self.writes) + 1", "key.key not in self.latest",
                        "forall(VersionedDataSourceKey, lambda v: implies(v.key == key.key, v not in self.blobs))"],
               modifies=["self.latest", "self.blobs", "self.writes"],
               notes="interface: deletes every version of the key")
    S = "storage_base:Codec.BlobStrategy."
    # serialisation is NOT assumed repeatable (pickling may have side effects): each call yields some bytes; ghost 'encoded' is what the
    # latest call returned, ghost 'encode_calls' counts the calls
    R.contract(S + "encode", assumed=True, types={"self": TEnt("BlobStrategy"), "obj": TObj()}, returns=TObj("nn:bytes"),
               ensures=["same(ghost('encoded'), result)", "ghost('encode_calls') == old(ghost('encode_calls')) + 1"], modifies=["ghost:encoded", "ghost:encode_calls"],
               notes="abstract method: some serialisation of the object; not assumed to be a function of the object")
    R.contract(S + "store", prop="C07", types={"self": TEnt("BlobStrategy"), "data_source": DS, "key_override": TOpt(TStr), "obj": TObj()}, returns=VKey,
               ghost_params={"encoded": TObj(), "encode_calls": TInt},
               requires=["J(data_source)", "LINKS_OK(data_source)",
                         # stated precondition: a user-chosen key does not alias a content address
                         "implies(key_override is not None, not key_override.startswith('c/'))"],
               ensures=["J(data_source)", "LINKS_OK(data_source)", "OLD_BLOBS_KEPT(data_source)",
                        # the object is serialised exactly once; those bytes are what is hashed and what is stored
                        "ghost('encode_calls') == old(ghost('encode_calls')) + 1",
                        "result in data_source.blobs", "same(data_source.blobs[result], ghost('encoded'))",
                        # the key is derived solely from the SHA-256 of the serialized bytes
                        "implies(not key_override, result.key == 'c/' + sha256hex(ghost('encoded')))",
                        "implies(key_override, result.key == key_override)",
                        # deduplication: equal bytes share one stored object -- nothing is written when the content key exists
                        "implies(not key_override and old(result.key in data_source.latest), data_source.writes == old(data_source.writes) and result.version == old(data_source.latest[result.key]))",
                        "implies(not (not key_override and old(result.key in data_source.latest)), data_source.writes == old(data_source.writes) + 1)"],
               raises={"OSError+": ["J(data_source)", "OLD_BLOBS_KEPT(data_source)", "[C08] LINKS_OK(data_source)"]},
               modifies=["data_source.blobs", "data_source.latest", "data_source.writes"],
               # C08: a crash between two data-source calls leaves the integrity invariant, the links and every old version intact
               labels={"step_invariant": ["[C08] J(data_source)", "[C08] LINKS_OK(data_source)", "[C08] OLD_BLOBS_KEPT(data_source)"]})

    R.contract("storage_base:Codec.NullStrategy.store", prop="C07", types={"self": TEnt("NullStrategy"), "data_source": DS, "key_override": TOpt(TStr), "obj": TObj()}, returns=TOpt(VKey),
               requires=["J(data_source)", "implies(key_override is not None, not key_override.startswith('c/'))"],
               ensures=["result is None", "J(data_source)", "OLD_BLOBS_KEPT(data_source)"],
               raises={"OSError+": ["J(data_source)", "OLD_BLOBS_KEPT(data_source)"]},
               modifies=["data_source.latest", "data_source.writes"])
