"""Contracts for the metadata source's path scheme and forget operations (property C05: "every storage backend behaves like one dictionary of
memoized calls"; anchored: DataSourceMetadataSource path scheme and forget by directory / file prefix): _get_function_path, _get_path,
_get_metadata_path, _get_metadata_key, forget_call, forget_function, forget_everything, put_memento, write_metadata, list_mementos, list_functions, all_mementos_exist.

The layout of the metadata area (documented store layout, shared with other implementations):
    m/<qualified name>/<argument hash>.memento.json                       the memento of a call
    m/<qualified name>/<argument hash>.metadata.<key>[.with_data]         its metadata entries
From the property: forgetting a call removes what is stored for THAT call and nothing else -- the keys of the function's directory whose file name
starts with the call's argument hash, each with all its versions, not recursively; forgetting a function removes its directory; forgetting
everything removes the root.  The data source is the abstract one: list_keys_nonversioned / delete_all_versions are recorded in ghost state
(what was listed, what was deleted), their own behaviour is the interface contract of DataSource (proved for the file-system source elsewhere / assumed).
"""
import z3

from pyvc.ty import *  # noqa
from pyvc.engine import PyRaise, Unsupported


def load(R):
    DKey = R.record("DataSourceKey", key=TStr)
    R.namedtuples = set(getattr(R, "namedtuples", ())) | {"DataSourceKey"}      # types.py: DataSourceKey = namedtuple("DataSourceKey", ["key"])
    R.attr("qualified_name", TStr)
    R.attr("arg_hash", TStr)
    R.attr("fn_reference", TObj("nn:FunctionReference"))
    R.attr("data_source", TObj("nn:DataSource"))
    for n, (a, r) in dict(dirname=([TStr], TStr), basename=([TStr], TStr), listing=([TObj(), TStr, TStr, TBool], TObj()), del_rec=([TStr, TBool], TObj()),
                          listing_f=([TObj(), TObj(), TObj()], TObj()), memento_at=([TObj(), TStr], TObj())).items():
        R.uf(n, a, r)
    ufs = {k: v[0] for k, v in R.ufs.items()}
    R.external("os.path.dirname", returns=TStr, ensures=["result == dirname(arg0)"])
    R.external("os.path.basename", returns=TStr, ensures=["result == basename(arg0)"])
    R.consts["storage_base:DataSourceMetadataSource._function_path_prefix"] = lambda ex: VRec(DKey.mk(z3.StringVal("m")), DKey)
    R.class_consts = getattr(R, "class_consts", {})
    GH = {"deleted": TList(TObj()), "listed": TList(TObj())}

    def list_keys(ex, recv, args, kwargs):
        """data_source.list_keys_nonversioned(directory=, file_prefix=, recursive=): recorded; the result is the listing of (source, directory, prefix,
        recursive) -- an arbitrary finite list of keys."""
        if args or not {"directory", "file_prefix", "recursive"} <= set(kwargs) or set(kwargs) - {"directory", "file_prefix", "recursive", "limit", "endswith"}:
            raise Unsupported("list_keys_nonversioned of this shape")
        d = ex.get_attr(kwargs["directory"], "key") if not isinstance(kwargs["directory"], VRec) else VStr(DKey.get(kwargs["directory"].t, "key"))
        o = ufs["listing"](recv.t, ex.to_term(d, TStr), ex.to_term(kwargs["file_prefix"], TStr), ex.to_term(kwargs["recursive"], TBool))
        if "limit" in kwargs or "endswith" in kwargs:
            # the filtered listing: at most `limit` of the keys whose name ends with `endswith` (None: no bound / no filter)
            o = R.ufs["listing_f"][0](o, ex.box(kwargs.get("limit", VNone)), ex.box(kwargs.get("endswith", VNone)))
        g = ex.st.ghost
        lst = ex.cont(g["listed"])
        g["listed"] = ex.new_box(lst.replace(arr=z3.Store(lst.arr, lst.n, o), n=lst.n + 1))
        res = ex.sym(TList(DKey), "listing!%d" % ex._bump())
        # the ghost keeps its own copy: the loop over the returned list havocs the ghost (the listing call is part of the `for` statement), the invariants tie it back
        ex.st.ghost["last_listing"] = ex.new_box(ex.cont(res))
        return res
    R.obj_method_hooks["list_keys_nonversioned"] = list_keys

    def delete_all(ex, recv, args, kwargs):
        names = ["key", "recursive"]
        vals = dict(zip(names, args)); vals.update(kwargs)
        k = vals["key"]
        kt = DKey.get(k.t, "key") if isinstance(k, VRec) else ex.to_term(ex.get_attr(k, "key"), TStr)
        o = ufs["del_rec"](kt, ex.to_term(vals["recursive"], TBool))
        g = ex.st.ghost
        lst = ex.cont(g["deleted"])
        g["deleted"] = ex.new_box(lst.replace(arr=z3.Store(lst.arr, lst.n, o), n=lst.n + 1))
        return VNone
    R.obj_method_hooks["delete_all_versions"] = delete_all

    D = "storage_base:DataSourceMetadataSource."
    FR = TObj("nn:FunctionReference")
    FWH = TObj("nn:FunctionReferenceWithArgHash")
    R.spec("FPATH", ["f"], "'m/' + f.qualified_name")
    R.spec("CPATH", ["f", "h"], "'m/' + f.qualified_name + '/' + h")
    R.contract(D + "_get_function_path", prop="C05", types={"fn_reference": FR}, returns=DKey, ensures=["result.key == FPATH(fn_reference)"])
    R.contract(D + "_get_path", prop="C05", types={"fn_reference": FR, "arg_hash": TStr}, returns=TStr, ensures=["result == CPATH(fn_reference, arg_hash)"])
    R.contract(D + "_get_metadata_path", prop="C05", types={"fn_with_arg_hash": FWH}, returns=DKey,
               ensures=["result.key == CPATH(fn_with_arg_hash.fn_reference, fn_with_arg_hash.arg_hash) + '.memento.json'"])
    R.contract(D + "_get_metadata_key", prop="C05", types={"fn_with_arg_hash": FWH, "key": TStr, "stored_with_data": TBool}, returns=DKey,
               ensures=["result.key == CPATH(fn_with_arg_hash.fn_reference, fn_with_arg_hash.arg_hash) + '.metadata.' + key + ('.with_data' if stored_with_data else '')"])
    DMS = TObj("nn:DataSourceMetadataSource")
    R.spec("NDEL", [], "old(len(ghost('deleted')))")
    R.contract(D + "forget_function", prop="C05", types={"self": DMS, "fn_reference": FR}, ghost_params=GH,
               ensures=["len(ghost('deleted')) == NDEL() + 1", "same(ghost('deleted')[NDEL()], del_rec(FPATH(fn_reference), True))", "len(ghost('listed')) == old(len(ghost('listed')))"],
               modifies=["ghost:deleted"])
    R.contract(D + "forget_everything", prop="C05", types={"self": DMS}, ghost_params=GH,
               ensures=["len(ghost('deleted')) == NDEL() + 1", "same(ghost('deleted')[NDEL()], del_rec('', True))", "len(ghost('listed')) == old(len(ghost('listed')))"],
               modifies=["ghost:deleted"])
    CP = "CPATH(fn_with_arg_hash.fn_reference, fn_with_arg_hash.arg_hash)"
    R.contract(D + "forget_call", prop="C05", types={"self": DMS, "fn_with_arg_hash": FWH}, ghost_params=dict(GH, last_listing=TList(DKey)),
               ensures=[
                   # one listing: the directory of the call's path, the file name of the call's path as prefix, not recursive
                   "len(ghost('listed')) == old(len(ghost('listed'))) + 1",
                   "same(ghost('listed')[old(len(ghost('listed')))], listing(self.data_source, dirname(%s), basename(%s), False))" % (CP, CP),
                   # every listed key is deleted with all its versions, not recursively -- and nothing else is
                   "len(ghost('deleted')) == NDEL() + len(ghost('last_listing'))",
                   "forall(int, lambda j: implies(0 <= j and j < len(ghost('last_listing')), same(ghost('deleted')[NDEL() + j], del_rec(ghost('last_listing')[j].key, False))))"],
               loops={1: ["len(ghost('deleted')) == NDEL() + loop_i", "len(ghost('last_listing')) == loop_n", "forall(int, lambda j: implies(0 <= j and j < loop_n, ghost('last_listing')[j] == loop_list[j]))",
                          "forall(int, lambda j: implies(0 <= j and j < loop_i, same(ghost('deleted')[NDEL() + j], del_rec(ghost('last_listing')[j].key, False))))",
                          "len(ghost('listed')) == old(len(ghost('listed'))) + 1",
                          "same(ghost('listed')[old(len(ghost('listed')))], listing(self.data_source, dirname(%s), basename(%s), False))" % (CP, CP)]},
               modifies=["ghost:deleted", "ghost:listed", "ghost:last_listing"])
    R.assume("metadata source: os.path.dirname / basename are uninterpreted functions of the path string (for 'a/b' with no '/' in b they give a and b: not needed by "
             "the proof); list_keys_nonversioned / delete_all_versions of the data source are recorded, their effect on the store is the DataSource interface contract")

    # ---------------------------------------------------------------- listings: list_mementos
    # From the property ("listings enumerate exactly the live entries"; C12: "entries stored under it can be found again by ... listings"): the mementos of a function
    # are read from ONE listing -- of that function's own directory, not recursive, no name prefix, only the '<hash>.memento.json' files, at most `limit` of them --
    # and the result is the memento read from every listed key, in the order listed, nothing dropped and nothing added.
    R.obj_method("_read_memento", types={"self": TObj(), "arg0": DKey}, returns=TObj(), ensures=["same(result, memento_at(self, arg0.key))"], raises={"Exception+": []},
                 notes="reading one memento (input_nonversioned + json + decode_memento; decode_memento is proved under C11): a function of the source and the key, or whatever reading raises; writes nothing")
    R.contract(D + "list_mementos", prop="C05", types={"self": DMS, "fn": FR, "limit": TOpt(TInt)}, returns=TList(TObj()), ghost_params=dict(GH, last_listing=TList(DKey)),
               ensures=["len(ghost('listed')) == old(len(ghost('listed'))) + 1",
                        "same(ghost('listed')[old(len(ghost('listed')))], listing_f(listing(self.data_source, FPATH(fn), '', False), limit, '.memento.json'))",
                        "len(result) == len(ghost('last_listing'))",
                        "forall(int, lambda j: implies(0 <= j and j < len(result), same(result[j], memento_at(self, ghost('last_listing')[j].key))))",
                        "len(ghost('deleted')) == NDEL()"],
               raises={"Exception+": ["len(ghost('deleted')) == NDEL()"]},
               loops={1: ["len(result) == loop_i", "len(ghost('last_listing')) == loop_n", "forall(int, lambda j: implies(0 <= j and j < loop_n, ghost('last_listing')[j] == loop_list[j]))",
                          "forall(int, lambda j: implies(0 <= j and j < loop_i, same(result[j], memento_at(self, ghost('last_listing')[j].key))))",
                          "len(ghost('listed')) == old(len(ghost('listed'))) + 1", "len(ghost('deleted')) == NDEL()",
                          "same(ghost('listed')[old(len(ghost('listed')))], listing_f(listing(self.data_source, FPATH(fn), '', False), limit, '.memento.json'))"]},
               labels={"local_types": {"result": TList(TObj())}},
               modifies=["ghost:listed", "ghost:last_listing"])

    # list_functions ("listings enumerate exactly the live entries"): one listing of the metadata root 'm', not recursive, no prefix; every listed key 'm/<qualified name>'
    # yields the reference for exactly that qualified name (the key without its 'm/' prefix), in the order listed
    R.uf("ref_named", [TStr], TObj())
    R.contract("reference:FunctionReference.from_qualified_name", assumed=True, types={"qualified_name": TStr}, returns=TObj(), ensures=["same(result, ref_named(qualified_name))"],
               raises={"Exception+": []}, notes="assumed here: the reference is a function of the stored name (naming / never raising on well-formed names: C12)")
    R.contract(D + "list_functions", prop="C05", types={"self": DMS}, returns=TList(TObj()), ghost_params=dict(GH, last_listing=TList(DKey)),
               ensures=["len(ghost('listed')) == old(len(ghost('listed'))) + 1",
                        "same(ghost('listed')[old(len(ghost('listed')))], listing(self.data_source, 'm', '', False))",
                        "len(result) == len(ghost('last_listing'))",
                        "forall(int, lambda j: implies(0 <= j and j < len(result), same(result[j], ref_named(ghost('last_listing')[j].key[2:]))))",
                        "len(ghost('deleted')) == NDEL()"],
               raises={"Exception+": ["len(ghost('deleted')) == NDEL()"]},
               modifies=["ghost:listed", "ghost:last_listing"])

    # all_mementos_exist ("reads return the last value written ... is-memoized"): true exactly when the memento file of EVERY requested call exists -- each call asked about
    # under its own memento path, in one bulk question to the data source
    R.uf("key_exists", [TObj(), TStr], TBool)

    def all_exist(ex, recv, args, kwargs):
        keys = ex.cont(args[0])
        if not isinstance(keys, ListV):
            raise Unsupported("all_exist_nonversioned of %r" % (keys,))
        res = ex.sym(TList(TBool), "exist!%d" % ex._bump())
        r = ex.cont(res)
        ex.assume(r.n == keys.n)
        src = recv.t
        ex.add_universal([TInt], lambda j: z3.Implies(z3.And(0 <= j, j < keys.n), r.arr[j] == R.ufs["key_exists"][0](src, DKey.get(keys.arr[j], "key"))), "all-exist-answers")
        return res
    R.obj_method_hooks["all_exist_nonversioned"] = all_exist
    R.contract(D + "all_mementos_exist", prop="C05", types={"self": DMS, "fns": TList(FWH)}, returns=TBool,
               ensures=["result == forall(int, lambda j: implies(0 <= j and j < len(fns), key_exists(self.data_source, CPATH(fns[j].fn_reference, fns[j].arg_hash) + '.memento.json')))"])

    # ---------------------------------------------------------------- writes: put_memento, write_metadata
    # From the property (one dictionary of calls): the memento of a call is written under THAT call's memento path; a metadata entry under the call's metadata
    # key for (key, stored-with-data) -- with the value itself, or empty when the value lives with the data.
    R.uf("out_rec", [TStr, TObj()], TObj())
    R.uf("bytes_io", [TObj()], TObj())
    R.uf("utf8", [TStr], TObj())
    R.uf("json_text", [TObj()], TStr)
    R.uf("encoded_memento", [TObj()], TObj())
    R.uf("fwh_of", [TObj()], TObj())
    R.attr("invocation_metadata", TObj("nn:InvocationMetadata"))
    R.attr("fn_reference_with_args", TObj("nn:FunctionReferenceWithArguments"))
    R.external("json.dumps", returns=TStr, ensures=["result == json_text(arg0)"])
    R.external("io.BytesIO", returns=TObj("nn:BytesIO"), ensures=["same(result, bytes_io(arg0))"])
    R.func_hooks["serialization:MementoCodec.encode_memento"] = lambda ex, args, kwargs: VObj(ufs_()["encoded_memento"](ex.box(args[0])))
    R.obj_method_hooks["fn_reference_with_arg_hash"] = lambda ex, recv, args, kwargs: VObj(ufs_()["fwh_of"](recv.t), "FunctionReferenceWithArgHash")
    R.obj_method_hooks["encode"] = lambda ex, recv, args, kwargs: VObj(ufs_()["utf8"](ex.to_term(recv, TStr)))

    def ufs_():
        return {k: v[0] for k, v in R.ufs.items()}

    def output(ex, recv, args, kwargs):
        k, data = args
        kt = DKey.get(k.t, "key") if isinstance(k, VRec) else ex.to_term(ex.get_attr(k, "key"), TStr)
        g = ex.st.ghost
        lst = ex.cont(g["outputs"])
        g["outputs"] = ex.new_box(lst.replace(arr=z3.Store(lst.arr, lst.n, ufs_()["out_rec"](kt, ex.box(data))), n=lst.n + 1))
        return VNone
    R.obj_method_hooks["output"] = output
    GO = {"outputs": TList(TObj())}
    FWH_M = "fwh_of(memento.invocation_metadata.fn_reference_with_args)"
    R.contract(D + "put_memento", prop="C05", types={"self": DMS, "memento": TObj("nn:Memento")}, ghost_params=GO,
               requires=["%s is not None and %s.fn_reference is not None" % (FWH_M, FWH_M)],
               ensures=["len(ghost('outputs')) == old(len(ghost('outputs'))) + 1",
                        "same(ghost('outputs')[old(len(ghost('outputs')))], out_rec(CPATH(%s.fn_reference, %s.arg_hash) + '.memento.json', bytes_io(utf8(json_text(encoded_memento(memento))))))" % (FWH_M, FWH_M)],
               modifies=["ghost:outputs"])
    R.contract(D + "write_metadata", prop="C05", types={"self": DMS, "fn_with_arg_hash": FWH, "key": TStr, "value": TObj("nn:bytes"), "stored_with_data": TBool}, ghost_params=GO,
               ensures=["len(ghost('outputs')) == old(len(ghost('outputs'))) + 1",
                        "same(ghost('outputs')[old(len(ghost('outputs')))], out_rec(CPATH(fn_with_arg_hash.fn_reference, fn_with_arg_hash.arg_hash) + '.metadata.' + key + ('.with_data' if stored_with_data else ''), "
                        "bytes_io(bytes() if stored_with_data else value)))"],
               modifies=["ghost:outputs"])

