"""Contracts for storage_memory.MemoryStorageBackend (properties C05 -- "the memory backend answers exactly as a plain dictionary keyed
by (function name with version, argument hash)" -- and C19, read-only).

The backend keeps  mementos : defaultdict(dict)  qualified name -> (argument hash -> Memento),
                   result   : dict              'qualified name/argument hash' -> result object,
                   metadata : defaultdict(dict)  'qualified name/argument hash' -> (metadata key -> bytes).
These are mutable mapping OBJECTS (nested, aliasable): they are modelled on the heap (pyvc/heapmaps.py), not as containers.

Dictionary view taken from the property statement:
    HASM(b, q, h)   the call (q, h) is memoized          =  q in b.mementos and h in b.mementos[q]
    GETM(b, q, h)   its memento
    LIVE(b, q)      function q has at least one memoized call  ("listings enumerate exactly the live entries")
Representation facts (REP): the three maps are different objects, every row of a defaultdict is a dict object of its own.
"""
import z3

from pyvc.ty import *  # noqa
from pyvc import heapmaps


def load(R):
    heapmaps.register(R)
    for a, t in dict(invocation_metadata=TObj("nn:InvocationMetadata"), fn_reference_with_args=TObj("nn:FunctionReferenceWithArguments"),
                     fn_reference=TObj("nn:FunctionReference"), qualified_name=TStr, arg_hash=TStr).items():
        R.attr(a, t)
    R.attr("content_key", TObj(), mutable=True)
    VKey = R.record("VersionedDataSourceKey", key=TStr, version=TStr)
    R.opaque_class("FunctionReferenceWithArgHash", "reference")
    R.entity("MemoryStorageBackend", ("storage_memory", "MemoryStorageBackend"),
             dict(storage_type=TStr, config=TObj(), read_only=TObj(), metadata=TObj("nn:defaultdict"), result=TObj("nn:dict"), mementos=TObj("nn:defaultdict")))
    B = TEnt("MemoryStorageBackend")
    M = TObj("nn:Memento")
    FWH = TObj("nn:FunctionReferenceWithArgHash")
    FR = TObj("nn:FunctionReference")
    R.uf("kind_of", [TObj()], TInt)
    R.uf("qn_of", [TObj()], TStr)
    R.assume("memory backend: qualified names contain no '/', so 'qualified name/argument hash' identifies the pair (as in C05 for the file-system backend)")

    # m.invocation_metadata.fn_reference_with_args.fn_reference_with_arg_hash(): the (function, argument hash) pair of the memento
    def fwh(ex, recv, args, kwargs):
        o = ex.fresh_obj("FunctionReferenceWithArgHash")
        fr = z3.Function("attr_fn_reference", ObjSort, ObjSort)
        ah = z3.Function("attr_arg_hash", ObjSort, z3.StringSort())
        ex.assume(z3.And(ex.class_pred("FunctionReferenceWithArgHash")(o), fr(o) == fr(recv.t), ah(o) == ah(recv.t)))
        return VObj(o, "FunctionReferenceWithArgHash")
    R.obj_method_hooks["fn_reference_with_arg_hash"] = fwh
    R.contract("reference:FunctionReference.from_qualified_name", assumed=True, types={"qualified_name": TStr}, returns=TObj("nn:FunctionReference"),
               ensures=["result.qualified_name == qualified_name"],
               notes="C12 proves naming and exception freedom of from_qualified_name for well-formed names")
    R.func_hooks["storage:StorageBackend.__init__"] = None
    del R.func_hooks["storage:StorageBackend.__init__"]
    R.contract("storage:StorageBackend.__init__", assumed=True, types={"self": B, "storage_type": TStr, "config": TObj(), "read_only": TObj()},
               ensures=["self.storage_type == storage_type", "implies(read_only is not None, same(self.read_only, read_only))",
                        "implies(read_only is None, isinstance(self.read_only, bool))"],
               modifies=["self.storage_type", "self.config", "self.read_only"],
               notes="proved under C19 (flag from the argument, else the configuration, else False)")

    # ---------------------------------------------------------------- the dictionary view
    R.spec("HASM", ["b", "q", "h"], "q in b.mementos and h in b.mementos[q]")
    R.spec("GETM", ["b", "q", "h"], "b.mementos[q][h]")
    R.spec("LIVE", ["b", "q"], "q in b.mementos and truthy(b.mementos[q])")
    R.spec("MKEY", ["q", "h"], "q + '/' + h")
    R.spec("QN", ["m"], "m.invocation_metadata.fn_reference_with_args.fn_reference.qualified_name")
    R.spec("AH", ["m"], "m.invocation_metadata.fn_reference_with_args.arg_hash")
    R.spec("ISMAP", ["o"], "o is not None and kind_of(o) == 5")
    R.spec("REP", ["b"],
           "ISMAP(b.mementos) and ISMAP(b.result) and ISMAP(b.metadata) and not same(b.mementos, b.result) and not same(b.mementos, b.metadata) and not same(b.result, b.metadata) "
           "and row_slot(b.mementos) is None and row_slot(b.result) is None and row_slot(b.metadata) is None and allocated(b.mementos) and allocated(b.result) and allocated(b.metadata) "
           "and forall(str, lambda q: implies(q in b.mementos, ISMAP(b.mementos[q]) and allocated(b.mementos[q]) and same(row_slot(b.mementos[q]), slot(b.mementos, q)))) "
           "and forall(str, lambda q: implies(q in b.metadata, ISMAP(b.metadata[q]) and allocated(b.metadata[q]) and same(row_slot(b.metadata[q]), slot(b.metadata, q))))")
    # the dictionary of memoized calls / of results is as it was at entry
    R.spec("CALLS_SAME", ["b"], "forall(str, str, lambda q, h: HASM(b, q, h) == old(HASM(b, q, h)) and implies(HASM(b, q, h), same(GETM(b, q, h), old(GETM(b, q, h)))))")
    R.spec("CALLS_SAME_BUT", ["b", "q0", "h0"], "forall(str, str, lambda q, h: implies(not (q == q0 and h == h0), HASM(b, q, h) == old(HASM(b, q, h)) and implies(HASM(b, q, h), same(GETM(b, q, h), old(GETM(b, q, h))))))")
    R.spec("CALLS_SAME_BUT_FN", ["b", "q0"], "forall(str, str, lambda q, h: implies(q != q0, HASM(b, q, h) == old(HASM(b, q, h)) and implies(HASM(b, q, h), same(GETM(b, q, h), old(GETM(b, q, h))))))")
    R.spec("LIVE_SAME", ["b"], "forall(str, lambda q: LIVE(b, q) == old(LIVE(b, q)))")
    R.spec("RESULTS_SAME", ["b"], "forall(str, lambda k: (k in b.result) == old(k in b.result) and same(b.result[k], old(b.result[k])))")
    R.spec("RESULTS_SAME_BUT", ["b", "k0"], "forall(str, lambda k: implies(k != k0, (k in b.result) == old(k in b.result) and same(b.result[k], old(b.result[k]))))")
    R.spec("META_SAME", ["b"], "forall(str, str, lambda k, mk: (k in b.metadata and mk in b.metadata[k]) == old(k in b.metadata and mk in b.metadata[k]) "
                               "and implies(k in b.metadata and mk in b.metadata[k], same(b.metadata[k][mk], old(b.metadata[k][mk]))))")
    R.spec("META_SAME_BUT", ["b", "k0"], "forall(str, str, lambda k, mk: implies(k != k0, (k in b.metadata and mk in b.metadata[k]) == old(k in b.metadata and mk in b.metadata[k]) "
                                         "and implies(k in b.metadata and mk in b.metadata[k], same(b.metadata[k][mk], old(b.metadata[k][mk])))))")
    R.spec("STRUCT_SAME", ["b"], "same(b.mementos, old(b.mementos)) and same(b.result, old(b.result)) and same(b.metadata, old(b.metadata))")
    RO_TYPED = "isinstance(self.read_only, bool) or self.read_only is None"     # established by StorageBackend.__init__ (C19)
    MAPS = ["heap:$mh", "heap:$mv", "heap:$mo"]
    P = "storage_memory:MemoryStorageBackend."

    R.contract(P + "__init__", prop="C05", types={"self": B, "config": TObj(), "read_only": TObj()},
               ensures=["REP(self)", "forall(str, str, lambda q, h: not HASM(self, q, h))", "forall(str, lambda k: k not in self.result)",
                        "forall(str, lambda q: not LIVE(self, q))"],
               modifies=["self.*"] + MAPS, labels={"use_defaults_at_call": True})

    R.contract(P + "_get_memento_key", prop="C05", types={"fn_with_arg_hash": FWH}, returns=TStr,
               ensures=["result == MKEY(fn_with_arg_hash.fn_reference.qualified_name, fn_with_arg_hash.arg_hash)"])

    # ---- lookups change nothing a dictionary user can observe
    R.contract(P + "get_mementos", prop="C05", types={"self": B, "fns": TList(FWH)}, returns=TList(TObj("Memento")),
               requires=["REP(self)"],
               ensures=["REP(self)", "STRUCT_SAME(self)", "len(result) == len(fns)",
                        "forall(int, lambda j: implies(0 <= j and j < len(fns), same(result[j], GETM(self, fns[j].fn_reference.qualified_name, fns[j].arg_hash) "
                        "if HASM(self, fns[j].fn_reference.qualified_name, fns[j].arg_hash) else None)))",
                        "CALLS_SAME(self)", "LIVE_SAME(self)", "RESULTS_SAME(self)", "META_SAME(self)"],
               loops={1: ["REP(self)", "STRUCT_SAME(self)", "len(results) == loop_i", "CALLS_SAME(self)", "LIVE_SAME(self)", "RESULTS_SAME(self)", "META_SAME(self)",
                          "forall(int, lambda j: implies(0 <= j and j < loop_i, same(results[j], GETM(self, fns[j].fn_reference.qualified_name, fns[j].arg_hash) "
                          "if HASM(self, fns[j].fn_reference.qualified_name, fns[j].arg_hash) else None)))"]},
               labels={"local_types": {"results": TList(TObj("Memento"))}, "loop_keep": ["storage_type", "config", "read_only", "content_key", "mementos", "result", "metadata"]},
               modifies=MAPS)
    R.contract(P + "is_memoized", prop="C05", types={"self": B, "fn_reference": FR, "arg_hash": TStr}, returns=TObj(),
               requires=["REP(self)"],
               ensures=["truthy(result) == HASM(self, fn_reference.qualified_name, arg_hash)", "CALLS_SAME(self)", "LIVE_SAME(self)", "RESULTS_SAME(self)", "META_SAME(self)", "STRUCT_SAME(self)"])
    R.contract(P + "read_result", prop="C05", types={"self": B, "memento": M}, returns=TObj(),
               requires=["REP(self)"],
               ensures=["MKEY(QN(memento), AH(memento)) in self.result", "same(result, self.result[MKEY(QN(memento), AH(memento))])",
                        "CALLS_SAME(self)", "RESULTS_SAME(self)", "STRUCT_SAME(self)"],
               raises={"KeyError": ["MKEY(QN(memento), AH(memento)) not in self.result", "CALLS_SAME(self)", "RESULTS_SAME(self)"]})

    # ---- listings enumerate exactly the live entries
    R.contract(P + "list_functions", prop="C05", types={"self": B}, returns=TList(TObj("FunctionReference")),
               requires=["REP(self)"],
               ensures=["forall(int, lambda j: implies(0 <= j and j < len(result), LIVE(self, result[j].qualified_name)))",
                        # (the converse -- every live function is listed -- needs a witness through the filter's rank and is NOT proved here)
                        "CALLS_SAME(self)", "LIVE_SAME(self)", "RESULTS_SAME(self)", "STRUCT_SAME(self)"])

    # ---- memoize: dictionary write at (QN, AH); read-only: nothing
    R.contract(P + "memoize", prop="C05", types={"self": B, "key_override": TOpt(TStr), "memento": M, "result": TObj()},
               requires=["REP(self)", RO_TYPED],
               ensures=["REP(self)", "STRUCT_SAME(self)",
                        "implies(truthy(self.read_only), CALLS_SAME(self) and RESULTS_SAME(self) and LIVE_SAME(self) and META_SAME(self))",
                        "implies(not truthy(self.read_only), HASM(self, QN(memento), AH(memento)) and same(GETM(self, QN(memento), AH(memento)), memento))",
                        "implies(not truthy(self.read_only), MKEY(QN(memento), AH(memento)) in self.result and same(self.result[MKEY(QN(memento), AH(memento))], result))",
                        "implies(not truthy(self.read_only), CALLS_SAME_BUT(self, QN(memento), AH(memento)) and RESULTS_SAME_BUT(self, MKEY(QN(memento), AH(memento))) and META_SAME(self))",
                        "implies(not truthy(self.read_only), LIVE(self, QN(memento)))"],
               modifies=MAPS + ["heap:content_key"])

    # ---- forgetting removes exactly its scope
    RO = {"ValueError": ["truthy(self.read_only)", "CALLS_SAME(self)", "RESULTS_SAME(self)", "META_SAME(self)", "LIVE_SAME(self)", "STRUCT_SAME(self)"]}
    R.contract(P + "forget_call", prop="C05", types={"self": B, "fn_with_arg_hash": FWH},
               requires=["REP(self)", RO_TYPED],
               ensures=["REP(self)", "STRUCT_SAME(self)", "not truthy(self.read_only)",
                        "not HASM(self, fn_with_arg_hash.fn_reference.qualified_name, fn_with_arg_hash.arg_hash)",
                        "MKEY(fn_with_arg_hash.fn_reference.qualified_name, fn_with_arg_hash.arg_hash) not in self.result",
                        "MKEY(fn_with_arg_hash.fn_reference.qualified_name, fn_with_arg_hash.arg_hash) not in self.metadata",
                        "CALLS_SAME_BUT(self, fn_with_arg_hash.fn_reference.qualified_name, fn_with_arg_hash.arg_hash)",
                        "RESULTS_SAME_BUT(self, MKEY(fn_with_arg_hash.fn_reference.qualified_name, fn_with_arg_hash.arg_hash))",
                        "META_SAME_BUT(self, MKEY(fn_with_arg_hash.fn_reference.qualified_name, fn_with_arg_hash.arg_hash))"],
               raises=RO, modifies=MAPS)
    R.contract(P + "forget_everything", prop="C05", types={"self": B},
               requires=["REP(self)", RO_TYPED],
               ensures=["REP(self)", "STRUCT_SAME(self)", "not truthy(self.read_only)", "forall(str, str, lambda q, h: not HASM(self, q, h))", "forall(str, lambda k: k not in self.result)",
                        "forall(str, lambda k: k not in self.metadata)", "forall(str, lambda q: not LIVE(self, q))"],
               raises=RO, modifies=MAPS)

    # ---- custom metadata
    R.contract(P + "write_metadata", prop="C05", types={"self": B, "fn_with_arg_hash": FWH, "key": TStr, "value": TObj(), "store_with_content_key": TOpt(VKey)},
               requires=["REP(self)", RO_TYPED],
               ensures=["REP(self)", "STRUCT_SAME(self)", "not truthy(self.read_only)", "CALLS_SAME(self)", "RESULTS_SAME(self)", "LIVE_SAME(self)",
                        "MKEY(fn_with_arg_hash.fn_reference.qualified_name, fn_with_arg_hash.arg_hash) in self.metadata",
                        "key in self.metadata[MKEY(fn_with_arg_hash.fn_reference.qualified_name, fn_with_arg_hash.arg_hash)]",
                        "same(self.metadata[MKEY(fn_with_arg_hash.fn_reference.qualified_name, fn_with_arg_hash.arg_hash)][key], value)",
                        "META_SAME_BUT(self, MKEY(fn_with_arg_hash.fn_reference.qualified_name, fn_with_arg_hash.arg_hash))"],
               raises=RO, modifies=MAPS)
    R.contract(P + "read_metadata", prop="C05", types={"self": B, "fn_with_arg_hash": FWH, "key": TStr, "retry_on_none": TBool}, returns=TObj(),
               requires=["REP(self)"],
               ensures=["REP(self)", "STRUCT_SAME(self)", "CALLS_SAME(self)", "RESULTS_SAME(self)", "LIVE_SAME(self)", "META_SAME(self)",
                        "implies(old(MKEY(fn_with_arg_hash.fn_reference.qualified_name, fn_with_arg_hash.arg_hash) in self.metadata "
                        "and key in self.metadata[MKEY(fn_with_arg_hash.fn_reference.qualified_name, fn_with_arg_hash.arg_hash)]), "
                        "same(result, old(self.metadata[MKEY(fn_with_arg_hash.fn_reference.qualified_name, fn_with_arg_hash.arg_hash)][key])))",
                        "implies(not old(MKEY(fn_with_arg_hash.fn_reference.qualified_name, fn_with_arg_hash.arg_hash) in self.metadata "
                        "and key in self.metadata[MKEY(fn_with_arg_hash.fn_reference.qualified_name, fn_with_arg_hash.arg_hash)]), result is None)"],
               modifies=MAPS, labels={"use_defaults_at_call": True})

    R.contract(P + "is_all_memoized", prop="C05", types={"self": B, "fns": TList(TObj("nn:FunctionReferenceWithArguments"))}, returns=TBool,
               requires=["REP(self)"],
               ensures=["result == forall(int, lambda j: implies(0 <= j and j < len(fns), HASM(self, fns[j].fn_reference.qualified_name, fns[j].arg_hash)))",
                        "CALLS_SAME(self)", "LIVE_SAME(self)", "RESULTS_SAME(self)", "STRUCT_SAME(self)"])
