#!/bin/bash
# usage: tools_seedconfirm.sh <pid> <n> : confirm a seeded change in the scratch worktree /tmp/wt_<pid>
pid=$1; n=$2; wt=/tmp/wt_$pid; out=/tmp/seed_out/$pid
cd $wt && git checkout -q -- . && git apply $out/patch$n.diff || { echo "$pid/$n APPLY-FAILED"; exit 1; }
t=$(/venv/bin/python -m pytest -q -p no:cacheprovider --timeout=900 -x 2>&1 | tail -1)
/venv/bin/python $out/demo$n.py $wt >/tmp/seed_out/$pid/demo$n.with.log 2>&1; with=$?
git checkout -q -- .
/venv/bin/python $out/demo$n.py $wt >/tmp/seed_out/$pid/demo$n.without.log 2>&1; without=$?
echo "$pid/$n tests=[$t] demo_with_patch_exit=$with demo_without_exit=$without"
