#!/usr/bin/env python3
"""Print the markdown table of DESIGN.md section 9.5 from seeded/*/meta.json (written by tools_seedrun.py)."""
import json, os, re
os.chdir(os.path.dirname(os.path.abspath(__file__)))
print("| seed | change | ./check on the changed copy |")
print("|---|---|---|")
for sd in sorted(os.listdir("seeded"), key=lambda x: (x.split("-")[0], int(x.split("-")[1]))):
    m = json.load(open("seeded/%s/meta.json" % sd))
    txt = m.get("needs_to_manifest", "")
    ch = re.split(r"\n|Tests do not notice|Effect:", txt.replace("Change:", "").strip())[0].strip()
    ch = (ch[:170] + "...") if len(ch) > 173 else ch
    r = m.get("check_result")
    if m.get("superseded"):
        res = "superseded: " + m["superseded"][:160] + "..."
    elif not r:
        res = "not run"
    else:
        res = {0: "**missed** (exit 0)", 1: "exit 1: VIOLATION", 2: "exit 2: undecided", 3: "exit 3: checker error"}.get(r["exit"], "exit %s" % r["exit"])
        if r["exit"] == 1:
            res += ", %d of %d replayed natively" % (r.get("replayed_natively", 0), r.get("violations", 0))
    print("| %s | %s | %s |" % (sd, ch.replace("|", "/"), res.replace("|", "/")))
