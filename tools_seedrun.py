#!/usr/bin/env python3
"""Run the registered checks against seeded changes without touching /repo: each seed is applied to a scratch copy of the
package (outside /repo and /verif), the check runs with PYVC_REPO pointing at it, the copy is removed.
usage: tools_seedrun.py [seed-id ...]   (default: all seeds whose property is claimed in MANIFEST.json)
Results are recorded in seeded/<id>/meta.json under "check_result"; evidence files are restored afterwards."""
import json, os, shutil, subprocess, sys, tempfile, time
os.chdir(os.path.dirname(os.path.abspath(__file__)))
claimed = {c["property_id"] for c in json.load(open("MANIFEST.json"))["checks"]}
seeds = sys.argv[1:] or sorted(os.listdir("seeded"))
for sd in seeds:
    d = os.path.join("seeded", sd)
    meta = json.load(open(d + "/meta.json"))
    pid = meta["property"]
    if pid not in claimed and not sys.argv[1:]:
        continue
    tmp = tempfile.mkdtemp(prefix="seedrepo_")
    try:
        shutil.copytree("/repo/twosigma", tmp + "/twosigma")
        r = subprocess.run(["patch", "-p1", "-s", "-i", os.path.abspath(d + "/patch.diff")], cwd=tmp, capture_output=True, text=True)
        if r.returncode != 0:
            print(sd, "PATCH DOES NOT APPLY", (r.stdout + r.stderr).strip()[:200]); continue
        ev = "evidence/%s.json" % pid
        saved = open(ev).read() if os.path.exists(ev) else None
        t0 = time.time()
        p = subprocess.run(["./check", pid, "--tier", "quick"], capture_output=True, text=True, env=dict(os.environ, PYVC_REPO=tmp))
        lines = [l for l in p.stdout.splitlines() if l.startswith(("VIOLATION", "KNOWN", "UNDECIDED", "CHECKER"))]
        viol = [l for l in lines if l.startswith("VIOLATION")]
        meta["check_result"] = {"cmd": "PYVC_REPO=<scratch copy with patch> ./check %s --tier quick" % pid, "exit": p.returncode, "lines": lines[:4], "violations": len(viol),
                                "replayed_natively": sum(1 for l in viol if not l.endswith("no-failing-input-found")), "wall_s": round(time.time() - t0, 1), "detected": p.returncode == 1}
        print(sd, "exit=%d" % p.returncode, "violations=%d replayed=%d" % (len(viol), meta["check_result"]["replayed_natively"]), [l[:140] for l in lines[:1]], flush=True)
        if saved is not None:
            open(ev, "w").write(saved)
    finally:
        shutil.rmtree(tmp, ignore_errors=True)
    json.dump(meta, open(d + "/meta.json", "w"), indent=1)
