#!/usr/bin/env python3
"""Run the registered checks against every seeded change: apply patch to /repo, ./check <property> --tier quick, undo.
usage: tools_seedrun.py [seed-id ...]   (default: all seeds whose property is claimed in MANIFEST.json)"""
import json, os, subprocess, sys, time
os.chdir("/verif")
claimed = {c["property_id"] for c in json.load(open("MANIFEST.json"))["checks"]}
seeds = sys.argv[1:] or sorted(os.listdir("seeded"))
assert subprocess.run(["git", "-C", "/repo", "status", "--porcelain"], capture_output=True, text=True).stdout.strip() == "", "/repo not clean"
for sd in seeds:
    d = os.path.join("seeded", sd)
    meta = json.load(open(d + "/meta.json"))
    pid = meta["property"]
    if pid not in claimed and not sys.argv[1:]:
        continue
    r = subprocess.run(["git", "-C", "/repo", "apply", os.path.abspath(d + "/patch.diff")], capture_output=True, text=True)
    if r.returncode != 0:
        print(sd, "PATCH DOES NOT APPLY", r.stderr.strip()[:200]); continue
    try:
        t0 = time.time()
        p = subprocess.run(["./check", pid, "--tier", "quick"], capture_output=True, text=True)
        lines = [l for l in p.stdout.splitlines() if l.startswith(("VIOLATION", "KNOWN", "UNDECIDED", "CHECKER"))]
        meta["check_result"] = {"cmd": "./check %s --tier quick" % pid, "exit": p.returncode, "lines": lines[:6], "wall_s": round(time.time() - t0, 1),
                                "detected": p.returncode == 1}
        print(sd, "exit=%d" % p.returncode, lines[:2])
    finally:
        subprocess.run(["git", "-C", "/repo", "checkout", "--", "."])
        subprocess.run(["git", "checkout", "--", "evidence"], capture_output=True)
    json.dump(meta, open(d + "/meta.json", "w"), indent=1)
