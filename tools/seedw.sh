#!/bin/bash
# usage: seedw.sh <seed-id> <module> <fid> [prop]  -- run one worker against a scratch copy of /repo with the seed applied
rm -rf /tmp/seedrepo; mkdir -p /tmp/seedrepo; cp -r /repo/twosigma /tmp/seedrepo/
( cd /tmp/seedrepo && patch -p1 -s < /verif/seeded/$1/patch.diff ) || exit 9
PYVC_REPO=/tmp/seedrepo /tmp/w.sh "$2" "$3" "${4:-C18}"
rm -rf /tmp/seedrepo
