import sys, importlib, json, time
sys.path.insert(0, "/verif")
import z3
from pyvc.spec import Registry
from pyvc.source import Sources
from pyvc.verify import Verifier
mods, fid, pat = sys.argv[1].split(","), sys.argv[2], sys.argv[3]
R = Registry()
for m in mods:
    importlib.import_module("contracts." + m).load(R)
v = Verifier(R, Sources(), fid, {"prop": sys.argv[4] if len(sys.argv) > 4 else "C08"})
v.explore()
obs = [v.obligations[k] for k in v.ob_order]
print(len(obs), "obligations")
for ob in obs:
    if pat in ob.name:
        print(ob.name, "pc", len(ob.pc))
        s = z3.Solver(); s.set("timeout", 20000)
        s.add(*ob.pc); s.add(z3.Not(ob.goal))
        open("/tmp/ob.smt2", "w").write(s.to_smt2())
        t = time.time(); r = s.check(); print("z3:", r, time.time() - t)
        print("GOAL:", ob.goal)
        if r == z3.sat:
            m = s.model()
            z3.set_option(max_args=10000, max_lines=100000, max_depth=1000, max_visited=1000000)
            for d in m.decls():
                if d.arity() == 0: print(d.name(), "=", m[d])
        break
