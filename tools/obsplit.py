import sys, importlib, json, time
sys.path.insert(0, "/verif")
import z3
from pyvc.spec import Registry
from pyvc.source import Sources
from pyvc.verify import Verifier
mods, fid, pat = sys.argv[1].split(","), sys.argv[2], sys.argv[3]
opts = json.loads(sys.argv[4]) if len(sys.argv) > 4 else {"prop": "C05"}
R = Registry()
for m in mods:
    importlib.import_module("contracts." + m).load(R)
v = Verifier(R, Sources(), fid, opts)
v.explore()
obs = [v.obligations[k] for k in v.ob_order]
print(len(obs), "obligations")
def conj(g):
    if z3.is_and(g):
        out = []
        for c in g.children(): out += conj(c)
        return out
    return [g]
for ob in obs:
    if pat in ob.name:
        print(ob.name, "pc", len(ob.pc))
        g = ob.goal
        hyps = []
        while z3.is_implies(g):
            hyps.append(g.arg(0)); g = g.arg(1)
        parts = conj(g)
        print(len(hyps), "hyps", len(parts), "conjuncts")
        for i, c in enumerate(parts):
            s = z3.Solver(); s.set("timeout", 8000)
            s.add(*ob.pc); s.add(*hyps); s.add(z3.Not(c))
            t = time.time(); r = s.check()
            print(i, r, round(time.time() - t, 2), str(c)[:300].replace("\n", " "))
            if r != z3.unsat and "--smt" in sys.argv:
                open("/tmp/ob_%d.smt2" % i, "w").write(s.to_smt2())
        from pyvc.ty import ObjSort
        ub = z3.Function("unbox_str", ObjSort, z3.StringSort())
        extra = []
        seen = set()
        def walk(t):
            if t.get_id() in seen: return
            seen.add(t.get_id())
            if z3.is_app(t):
                if t.decl().name() == "box_str":
                    extra.append(ub(t) == t.arg(0))
                for c in t.children(): walk(c)
        walk(g)
        print("extra axioms", len(extra))
        for i, c in enumerate(parts):
            s = z3.Solver(); s.set("timeout", 8000)
            s.add(*ob.pc); s.add(*hyps); s.add(*extra); s.add(z3.Not(c))
            r = s.check()
            if i >= 12: print("with box_str inverses:", i, r)
        break
