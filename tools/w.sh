#!/bin/bash
# usage: w.sh module fid [prop] [timeout]
cd /verif
python3-vt -m pyvc.worker $1 "$2" ${4:-10000} "{\"prop\":\"${3:-C18}\",\"assume_props\":[${ASSUME}]}" | python3 -c "
import json,sys
r=json.load(sys.stdin)
print(r.get('status'),r.get('reason'),(r.get('trace') or '')[-400:])
bad=[o for o in r.get('obligations',[]) if o['result']!='discharged']
seen=set()
n=0
for o in bad:
    k=(o['name'].split('/')[1:3][0] if '/' in o['name'] else '', o['clause'], o['result'])
    if k in seen: continue
    seen.add(k); n+=1
    if n>int('${MAXBAD:-4}'): break
    print(o['name'],o['result'],'|',o['clause'],'|',o.get('reason'),json.dumps(o.get('model'))[:int('${MODELW:-300}')])
print('obligations',len(r.get('obligations',[])),'bad',len(bad),'distinct',len(set((o['clause'],o['result']) for o in bad)),'paths',r.get('paths'),r.get('wall_s'),r.get('outcomes'),'unreached',r.get('unreached_ensures'))
"
