#!/bin/bash
# usage: mut.sh <file-under-twosigma/memento> <python-replace-old> <new> <module> <fid> [prop]
rm -rf /tmp/seedrepo; mkdir -p /tmp/seedrepo; cp -r /repo/twosigma /tmp/seedrepo/
python3 - "$1" "$2" "$3" <<'P' || exit 9
import sys
p='/tmp/seedrepo/twosigma/memento/'+sys.argv[1]
s=open(p).read()
assert s.count(sys.argv[2])>=1, "pattern not found"
s=s.replace(sys.argv[2],sys.argv[3],1)
open(p,'w').write(s)
P
/venv/bin/python -c "import ast,sys;ast.parse(open('/tmp/seedrepo/twosigma/memento/$1').read())" || exit 8
PYVC_REPO=/tmp/seedrepo /tmp/w.sh "$4" "$5" "${6:-C18}"
rm -rf /tmp/seedrepo
