#!/bin/bash
# usage: wdbg.sh module fid prop secs
cd /verif
timeout $((${4:-30}+5)) python3-vt -c "
import faulthandler,sys
faulthandler.dump_traceback_later(${4:-30}, exit=True)
sys.argv=['w','$1','$2','10000','{\"prop\":\"${3:-C08}\"}']
from pyvc.worker import main
main()
" 2>&1 | tail -60
