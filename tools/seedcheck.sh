#!/bin/bash
# usage: seedcheck.sh <seed-id> <prop>  -- ./check against a scratch copy with the seed applied (evidence restored afterwards)
rm -rf /tmp/seedrepo; mkdir -p /tmp/seedrepo; cp -r /repo/twosigma /tmp/seedrepo/; cp -r /repo/tests /tmp/seedrepo/ 2>/dev/null
( cd /tmp/seedrepo && patch -p1 -s < /verif/seeded/$1/patch.diff ) || exit 9
cd /verif; cp evidence/$2.json /tmp/ev_$2.json 2>/dev/null
PYVC_REPO=/tmp/seedrepo ./check $2 --tier quick 2>&1 | grep -v "^UNDECIDED" | cut -c1-260 | tail -${TAILN:-6}; echo "exit=${PIPESTATUS[0]}"
cp /tmp/ev_$2.json evidence/$2.json 2>/dev/null
rm -rf /tmp/seedrepo
